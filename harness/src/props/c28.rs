//! C28 Variable coercion follows the specification.
//!
//! A valid schema (gen::schema) gets a probe field `c28probe(<one argument per variable>)` on its
//! query root, so that the generated operation `query Q($a: T = default ...) { c28probe(a: $a ...) }`
//! uses every variable at a position of exactly its own type and is VALID (it goes through
//! `ExecutableDocument::parse_and_validate`; nothing is assumed valid). The variables map comes
//! from gen::json, targeted at the variable types. apollo's `request::coerce_variable_values` is
//! compared with `refmodel::coerce` (CoerceVariableValues, October 2021 section 6.1.2).

use crate::choices::Choices;
use crate::gen::json::JsonGen;
use crate::gen::schema as gschema;
use crate::refmodel::ast::*;
use crate::refmodel::coerce::{same_coerced, Coercer, Fail, Json, Model};
use crate::refmodel::parser::parse_document;
use crate::refmodel::printer;
use crate::refmodel::schema::{RefSchema, BUILTIN_SCALARS};
use crate::runner::{catch, normalise_panic, Ctx, Outcome, Prop, Tier};
use apollo_compiler::response::{JsonMap as AJsonMap, JsonValue as AJson};

pub fn prop() -> Prop {
    Prop::new(
        "C28",
        "Variable coercion follows the specification",
        "Cases: a valid generated schema (input objects with defaults, enums, custom scalars) plus a probe field \
         taking one argument per variable; a valid operation with 1-4 variable definitions over named / non-null / \
         list / nested-list types, 40 % with a default literal valid for the type; a JSON variables map targeted at \
         those types (provided / absent / explicit null, int and 2^53 edges, float-typed integral numbers, numeric \
         strings, wrong kinds, single values for lists, lists for scalars, unknown / missing input fields, enum \
         names valid / unknown / wrong case, undeclared extra variables; at most 3 injected faults). Oracle: \
         refmodel::coerce (CoerceVariableValues with apollo's documented scalar rules): Ok/Err agree and on Ok the \
         result has exactly the provided-or-defaulted declared variables with the reference's coerced values. \
         Non-trivial: some variable type has a list or an input object; distinct by operation + variables + schema text.",
    )
    .random("coerce", check, |t| if t == Tier::Quick { 1_200_000 } else { 5_000_000 }, |t| if t == Tier::Quick { 700 } else { 1000 })
    .text(check_text)
    .assumptions(&[
        "apollo's documented scalar rules are the oracle: Int = integer JSON number within 32 bits; Float = any float-typed JSON number, integer-typed ones only up to 2^53-1 in magnitude (CHANGELOG 1.31.0); ID = string or integer, kept as transported; no string->number/boolean coercion; custom scalars accept any JSON value unchanged; enums are JSON strings",
        "Unspecified (executed for crashes only): float-typed integral JSON numbers for Int; integers above i64::MAX for ID; a non-list non-null item inside an actual list whose item type is a list (October 2021 table of 3.11 says error, its prose and later editions wrap); invalid default literals",
        "coerced values are compared up to representation freedoms: Float numerically (1 = 1.0), ID 4 = \"4\", object key order ignored; custom scalar values exactly",
        "every variable is used as an argument of an added probe field of its own type, so the operation passes apollo's validation; cases apollo's validation rejects are skipped and counted",
        "default values come from gen::schema::value_for (valid literals for the type); defaults of input fields only on leaf-typed fields",
    ])
}

const SEP: &str = "\n#---\n";
const PROBE: &str = "c28probe";

// ------------------------------------------------------------------------------------------------
// JSON conversions between serde_json (reference side) and serde_json_bytes (apollo side)

pub fn to_apollo(v: &Json) -> AJson {
    match v {
        Json::Null => AJson::Null,
        Json::Bool(b) => AJson::Bool(*b),
        Json::Number(n) => AJson::Number(n.clone()),
        Json::String(s) => AJson::String(s.as_str().into()),
        Json::Array(a) => AJson::Array(a.iter().map(to_apollo).collect()),
        Json::Object(o) => AJson::Object(o.iter().map(|(k, v)| (k.as_str().into(), to_apollo(v))).collect()),
    }
}

pub fn from_apollo(v: &AJson) -> Json {
    match v {
        AJson::Null => Json::Null,
        AJson::Bool(b) => Json::Bool(*b),
        AJson::Number(n) => Json::Number(n.clone()),
        AJson::String(s) => Json::String(s.as_str().to_string()),
        AJson::Array(a) => Json::Array(a.iter().map(from_apollo).collect()),
        AJson::Object(o) => Json::Object(o.iter().map(|(k, v)| (k.as_str().to_string(), from_apollo(v))).collect()),
    }
}

// ------------------------------------------------------------------------------------------------
// Generation

fn var_type(c: &mut Choices, s: &RefSchema) -> Type {
    let enums: Vec<&str> = s.user_types.iter().filter(|n| s.kind(n) == Some(TypeKind::Enum)).map(|n| n.as_str()).collect();
    let inputs: Vec<&str> = s.user_types.iter().filter(|n| s.kind(n) == Some(TypeKind::InputObject)).map(|n| n.as_str()).collect();
    let scalars: Vec<&str> = s.user_types.iter().filter(|n| s.kind(n) == Some(TypeKind::Scalar)).map(|n| n.as_str()).collect();
    let w = [35, if inputs.is_empty() { 0 } else { 40 }, if enums.is_empty() { 0 } else { 15 }, if scalars.is_empty() { 0 } else { 10 }];
    let name = match c.weighted(&w) {
        0 => c.pick(&BUILTIN_SCALARS),
        1 => inputs[c.choose(inputs.len())],
        2 => enums[c.choose(enums.len())],
        _ => scalars[c.choose(scalars.len())],
    };
    let t = Type::named(name);
    match c.weighted(&[22, 10, 14, 8, 8, 8, 8, 6, 6, 5, 5]) {
        0 => t,
        1 => t.non_null(),
        2 => t.list(),
        3 => t.non_null().list(),
        4 => t.list().non_null(),
        5 => t.non_null().list().non_null(),
        6 => t.list().list(),
        7 => t.non_null().list().non_null().list().non_null(),
        8 => t.list().non_null().list(),
        9 => t.non_null().list().list(),
        _ => t.list().list().list(),
    }
}

struct Case {
    sdl: String,
    schema: RefSchema,
    op_text: String,
    defs: Vec<VarDef>,
    vars: serde_json::Map<String, Json>,
    labels: Vec<&'static str>,
}

fn gen_case(bytes: &[u8]) -> Case {
    // two independent streams so that neither starves the other: even bytes drive the schema,
    // odd bytes the operation and the variables
    let sb: Vec<u8> = bytes.iter().step_by(2).cloned().collect();
    let cb: Vec<u8> = bytes.iter().skip(1).step_by(2).cloned().collect();
    let mut cs = Choices::new(&sb);
    let mut c = Choices::new(&cb);

    let opts = gschema::Opts { descriptions: false, directives: false, deprecated: false, defaults: true, explicit_schema: true, max_types: 3 };
    let mut doc = gschema::schema(&mut cs, &opts);
    let pre = RefSchema::from_document(&doc);

    let n = 1 + c.choose(4);
    let mut defs: Vec<VarDef> = vec![];
    for i in 0..n {
        let ty = var_type(&mut c, &pre);
        // value_for can emit a null item for a non-null inner list type (`[[T]!] = [null]`), which is
        // not a valid literal: such defaults are dropped
        let default = if c.bool(100) { Some(gschema::value_for(&mut c, &ty, &pre.types, 2)) } else { None };
        let default = default.filter(|d| !matches!(Coercer::new(&pre).coerce_literal(&ty, d, None, "$"), Err(Fail::Err(_))));
        defs.push(VarDef { name: ["a", "b", "c", "d"][i].to_string(), ty, default, directives: vec![] });
    }
    // probe field on the query root: one argument per variable, of exactly the variable's type
    let qname = pre.query.clone().unwrap_or_else(|| "Query".to_string());
    for d in doc.defs.iter_mut() {
        if let Definition::Type(t) = d {
            if t.name == qname && !t.is_ext {
                t.fields.push(FieldDef {
                    description: None,
                    name: PROBE.into(),
                    args: defs.iter().map(|v| InputValueDef { description: None, name: v.name.clone(), ty: v.ty.clone(), default: None, directives: vec![] }).collect(),
                    ty: Type::named("Int"),
                    directives: vec![],
                });
            }
        }
    }
    if cs.bool(80) {
        gschema::split_extensions(&mut cs, &mut doc);
    }
    let schema = RefSchema::from_document(&doc);
    let sdl = printer::print_document(&doc);

    let op = OperationDef {
        op: OpType::Query,
        shorthand: false,
        name: Some("Q".into()),
        vars: defs.clone(),
        directives: vec![],
        selection_set: vec![Selection::Field(Field {
            alias: None,
            name: PROBE.into(),
            args: defs.iter().map(|v| (v.name.clone(), Value::Var(v.name.clone()))).collect(),
            directives: vec![],
            selection_set: vec![],
        })],
    };
    let op_text = printer::print_document(&Document { defs: vec![Definition::Operation(op)] });

    let mode = JsonGen::pick_mode(&mut c);
    let mut g = JsonGen::new(&schema, mode);
    let vars = g.variables(&mut c, &defs);
    let mut labels = g.labels;
    labels.push(["mode:no-fault", "mode:one-fault", "mode:multi-fault"][mode]);
    Case { sdl, schema, op_text, defs, vars, labels }
}

pub fn check(bytes: &[u8], ctx: &mut Ctx) -> Outcome {
    let case = gen_case(bytes);
    let vars_text = Json::Object(case.vars.clone()).to_string();
    ctx.set_sample(format!("{}{}{}{}{}", case.op_text, SEP, vars_text, SEP, case.sdl));
    for l in &case.labels {
        ctx.classes.push(l.to_string());
    }
    evaluate(&case.sdl, &case.schema, &case.op_text, &case.defs, &case.vars, ctx)
}

/// `<operation>\n#---\n<variables JSON>\n#---\n<schema SDL>`
pub fn check_text(text: &str, ctx: &mut Ctx) -> Outcome {
    let parts: Vec<&str> = text.splitn(3, SEP).collect();
    if parts.len() != 3 {
        return Outcome::fail("C28|bad-repro", "expected <operation>\\n#---\\n<variables JSON>\\n#---\\n<schema SDL>");
    }
    let (op_text, vars_text, sdl) = (parts[0], parts[1], parts[2]);
    let Ok(sdoc) = parse_document(sdl) else {
        return Outcome::fail("C28|bad-repro", "reference parser rejects the schema");
    };
    let schema = RefSchema::from_document(&sdoc);
    let Ok(odoc) = parse_document(op_text) else {
        return Outcome::fail("C28|bad-repro", "reference parser rejects the operation");
    };
    let Some(Definition::Operation(op)) = odoc.defs.iter().find(|d| matches!(d, Definition::Operation(_))) else {
        return Outcome::fail("C28|bad-repro", "no operation");
    };
    let Ok(Json::Object(vars)) = serde_json::from_str::<Json>(vars_text) else {
        return Outcome::fail("C28|bad-repro", "variables are not a JSON object");
    };
    ctx.set_sample(text.to_string());
    evaluate(sdl, &schema, op_text, &op.vars, &vars, ctx)
}

// ------------------------------------------------------------------------------------------------
// Oracle

fn type_kind_label(s: &RefSchema, name: &str) -> String {
    if BUILTIN_SCALARS.contains(&name) {
        return name.to_string();
    }
    match s.kind(name) {
        Some(TypeKind::Scalar) => "CustomScalar".into(),
        Some(TypeKind::Enum) => "Enum".into(),
        Some(TypeKind::InputObject) => "InputObject".into(),
        _ => "other".into(),
    }
}

/// Root-cause class of an apollo request error, from the shape of its message (type names are
/// replaced by their kind so that the signature survives shrinking).
fn reject_class(s: &RefSchema, msg: &str) -> String {
    if msg.starts_with("missing value for non-null variable") {
        "missing-non-null-variable".into()
    } else if msg.starts_with("null value for") {
        "null-for-non-null".into()
    } else if msg.starts_with("could not coerce") {
        let ty = msg.rsplit("to type ").next().unwrap_or("").trim();
        format!("could-not-coerce-to-{}", type_kind_label(s, ty))
    } else if msg.starts_with("Input object has key") {
        "unknown-input-field".into()
    } else if msg.starts_with("Missing value for non-null input object field") {
        "missing-input-field".into()
    } else {
        "other".into()
    }
}

fn evaluate(sdl: &str, schema: &RefSchema, op_text: &str, defs: &[VarDef], vars: &serde_json::Map<String, Json>, ctx: &mut Ctx) -> Outcome {
    let has_list = defs.iter().any(|d| d.ty.depth() > 0);
    let has_input = defs.iter().any(|d| schema.kind(d.ty.inner_name()) == Some(TypeKind::InputObject));
    ctx.nontrivial = has_list || has_input;

    // reference verdict
    let spec = Coercer::new(schema);
    let want = spec.coerce_variable_values(defs, vars);
    let verdict = match &want {
        Ok(_) => "ok".to_string(),
        Err(Fail::Err(r)) => format!("err:{}", r.code),
        Err(Fail::Unspecified(r)) => format!("unspecified:{}", r.code),
    };
    ctx.classes.insert(0, verdict);
    if has_list {
        ctx.class("var:list");
    }
    if defs.iter().any(|d| d.ty.depth() > 1) {
        ctx.class("var:nested-list");
    }
    if has_input {
        ctx.class("var:input-object");
    }
    if defs.iter().any(|d| d.default.is_some()) {
        ctx.class("var:default");
    }
    for n in spec.notes.borrow().iter() {
        ctx.class(format!("ref:{}", n));
    }

    // apollo
    let a_schema = match apollo_compiler::Schema::parse_and_validate(sdl, "schema.graphql") {
        Ok(s) => s,
        Err(e) => {
            if ctx.strict {
                eprintln!("apollo rejects the schema:\n{}", e.errors);
            }
            return ctx.skip("apollo-validation-rejects-schema");
        }
    };
    let a_doc = match apollo_compiler::ExecutableDocument::parse_and_validate(&a_schema, op_text, "op.graphql") {
        Ok(d) => d,
        Err(e) => {
            if ctx.strict {
                eprintln!("apollo rejects the operation:\n{}", e.errors);
            }
            return ctx.skip("apollo-validation-rejects-operation");
        }
    };
    let Ok(op) = a_doc.operations.get(None) else {
        return ctx.skip("no-single-operation");
    };
    let input: AJsonMap = vars.iter().map(|(k, v)| (k.as_str().into(), to_apollo(v))).collect();
    let got = match catch(|| apollo_compiler::request::coerce_variable_values(&a_schema, op, &input)) {
        Ok(r) => r,
        Err((msg, loc)) => {
            return Outcome::fail(format!("C28|panic|coerce_variable_values|{}", normalise_panic(&msg, &loc)), format!("panic: {} at {}", msg, loc));
        }
    };
    let got: Result<serde_json::Map<String, Json>, String> = match got {
        Ok(m) => Ok(m.iter().map(|(k, v)| (k.as_str().to_string(), from_apollo(v))).collect()),
        Err(e) => Err(e.message().to_string()),
    };

    let show = |m: &serde_json::Map<String, Json>| Json::Object(m.clone()).to_string();
    match (want, got) {
        (Err(Fail::Unspecified(_)), _) => Outcome::Pass,
        (Err(Fail::Err(_)), Err(_)) => Outcome::Pass,
        (Err(Fail::Err(r)), Ok(g)) => Outcome::fail(
            format!("C28|accepts|{}", r.code),
            format!("reference requires a request error ({} at {}), apollo returns {}", r.code, r.path, show(&g)),
        ),
        (Ok(w), Err(msg)) => {
            // is the rejection explained by the exclusive 2^53-1 bound alone?
            let edge = spec.notes.borrow().contains("float-int-at-max-safe")
                && matches!(
                    Coercer::with_model(schema, Model { float_max_safe_exclusive: true, ..Model::default() }).coerce_variable_values(defs, vars),
                    Err(Fail::Err(_))
                );
            let sig = if edge { "C28|rejects|Float-int-at-2^53-1".to_string() } else { format!("C28|rejects|{}", reject_class(schema, &msg)) };
            Outcome::fail(sig, format!("reference coerces to {}, apollo raises: {}", show(&w), msg))
        }
        (Ok(w), Ok(g)) => {
            let mut fails: Vec<(String, String)> = vec![];
            for k in g.keys() {
                if !defs.iter().any(|d| d.name == *k) {
                    fails.push(("C28|extra-variable-kept".into(), format!("undeclared variable {:?} is in the result {}", k, show(&g))));
                }
            }
            let bug = Coercer::with_model(schema, Model { defaults_uncoerced: true, ..Model::default() });
            for d in defs {
                match (w.get(&d.name), g.get(&d.name)) {
                    (None, None) => {}
                    (Some(x), None) => fails.push((
                        format!("C28|variable-dropped|{}", if vars.contains_key(&d.name) { "provided" } else { "defaulted" }),
                        format!("${} should be {} but is absent from {}", d.name, x, show(&g)),
                    )),
                    (None, Some(y)) => fails.push((
                        "C28|absent-variable-present".into(),
                        format!("${} has no value and no default, but the result has {}", d.name, y),
                    )),
                    (Some(x), Some(y)) => {
                        if let Err(diff) = same_coerced(schema, &d.ty, x, y, &format!("${}", d.name)) {
                            // root cause naming only: is apollo's value what one gets when default
                            // values are converted to JSON without coercion?
                            let explained = matches!(bug.coerce_variable(d, vars.get(&d.name)), Ok(Some(b)) if b == *y);
                            let kind = match diff.kind.as_str() {
                                "missing-field-with-default" if explained => "input-object-defaults".to_string(),
                                k => k.to_string(),
                            };
                            let sig = if explained { format!("C28|value|default-not-coerced|{}", kind) } else { format!("C28|value|{}", kind) };
                            fails.push((
                                sig,
                                format!(
                                    "${}: {} at {}: reference {} apollo {}; whole value: reference {} apollo {}{}",
                                    d.name,
                                    diff.kind,
                                    diff.path,
                                    diff.expected,
                                    diff.got,
                                    x,
                                    y,
                                    if explained { " (apollo's value is the default converted to JSON without input coercion)" } else { "" }
                                ),
                            ));
                        }
                    }
                }
            }
            ctx.pick_failure(fails)
        }
    }
}

#[cfg(test)]
mod tests {
    use super::*;

    /// Development aid: `cargo test --release c28::tests::explore -- --ignored --nocapture`
    #[test]
    #[ignore]
    fn explore() {
        let (mut shown_d, mut shown_v) = (0, 0);
        for i in 0..20000u64 {
            let bytes = crate::runner::gen_case(5, "C28", 0, i, 700);
            let case = gen_case(&bytes);
            let spec = Coercer::new(&case.schema);
            if let Err(Fail::Unspecified(r)) = spec.coerce_variable_values(&case.defs, &case.vars) {
                if r.code == "invalid-default-value" && shown_d < 12 {
                    shown_d += 1;
                    for d in &case.defs {
                        if let Some(def) = &d.default {
                            let r = spec.coerce_literal(&d.ty, def, None, "$");
                            if r.is_err() {
                                println!("DEFAULT {} = {} -> {:?}", d.ty.print(), printer::print_value(def), r);
                            }
                        }
                    }
                    println!("  at {} in {}", r.path, case.op_text);
                }
            }
            let a_schema = apollo_compiler::Schema::parse_and_validate(&case.sdl, "s.graphql").unwrap();
            if let Err(e) = apollo_compiler::ExecutableDocument::parse_and_validate(&a_schema, &case.op_text, "op.graphql") {
                if shown_v < 12 {
                    shown_v += 1;
                    println!("REJECTED {}\n{}", case.op_text, e.errors);
                }
            }
        }
    }
}
