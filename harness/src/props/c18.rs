//! C18 Executable documents are typed consistently with the schema.
use super::c17::{self, SEP};
use crate::choices::Choices;
use crate::refmodel::ast as rast;
use crate::refmodel::parser::parse_document;
use crate::refmodel::printer::print_document;
use crate::refmodel::schema::RefSchema;
use crate::runner::{Ctx, Outcome, Prop, Tier};
use apollo_compiler::executable::{ExecutableDocument, Field, Selection, SelectionSet};
use apollo_compiler::{ast, Node, Schema};
use std::collections::{BTreeMap, BTreeSet};

pub fn prop() -> Prop {
    Prop::new(
        "C18",
        "Executable documents are typed consistently with the schema",
        "Cases: C17's stream of schema + executable document pairs (valid by construction, then 0-2 rule mutators), \
         built with ExecutableDocument::parse (the partial document is used when there are errors). Oracle: a walk with \
         an independently computed parent type (RefSchema): every selection set carries the expected type (operation \
         root / field's inner named type / type condition / parent); every Field.definition equals \
         schema.type_field(parent, name) and agrees with the reference schema's field (type, argument names), \
         meta-fields included. For documents that apollo validates: every spread resolves, the spread graph is acyclic \
         (own DFS), used variables are defined, composite <=> has sub-selection, and Operation::root_fields / all_fields \
         (and SelectionSet::root_fields / all_fields of every fragment definition) yield exactly the multiset of field \
         nodes (by address) of the reachable closure entering each named fragment once. \
         Non-trivial: the document has a fragment spread or an inline fragment without type condition; distinct by texts.",
    )
    .random("pairs", check, |t| if t == Tier::Quick { 400_000 } else { 2_000_000 }, |t| if t == Tier::Quick { 700 } else { 1000 })
    .text(check_text)
    .case_timeout(120)
    .assumptions(&[
        "schemas come from gen::schema, two in three extended by the gen::opfixture definitions (valid); pairs whose schema apollo rejects are skipped",
        "validity guarantees are checked on documents apollo itself accepts (ExecutableDocument::validate is Ok)",
    ])
}

struct W<'a> {
    schema: &'a Schema,
    rs: &'a RefSchema,
    fails: Vec<(String, String)>,
}

impl<'a> W<'a> {
    fn fail(&mut self, sig: &str, detail: String) {
        if !self.fails.iter().any(|(s, _)| s == sig) {
            self.fails.push((sig.to_string(), detail));
        }
    }

    fn set(&mut self, set: &SelectionSet, expected: &str, what: &str) {
        if set.ty.as_str() != expected {
            self.fail(&format!("C18|selection-set-type|{}", what), format!("selection set of {} typed `{}`, expected `{}`", what, set.ty, expected));
        }
        let parent = expected;
        for sel in &set.selections {
            match sel {
                Selection::Field(f) => self.field(parent, f),
                Selection::InlineFragment(i) => {
                    let (exp, what) = match &i.type_condition {
                        Some(t) => (t.as_str().to_string(), "inline-fragment-with-condition"),
                        None => (parent.to_string(), "inline-fragment-without-condition"),
                    };
                    self.set(&i.selection_set, &exp, what);
                }
                Selection::FragmentSpread(_) => {}
            }
        }
    }

    fn field(&mut self, parent: &str, f: &Node<Field>) {
        match self.schema.type_field(parent, &f.name) {
            Ok(def) => {
                if f.definition != def.node {
                    self.fail("C18|definition-mismatch|type_field", format!("field `{}` on `{}`: definition {:?} differs from schema.type_field {:?}", f.name, parent, f.definition, def.node));
                }
            }
            Err(_) => self.fail("C18|definition-mismatch|no-such-field", format!("field `{}` is present below `{}` but schema.type_field finds none", f.name, parent)),
        }
        let Some(rd) = self.rs.field(parent, f.name.as_str()) else {
            self.fail("C18|definition-mismatch|reference-has-no-field", format!("field `{}` on `{}` does not exist in the reference schema", f.name, parent));
            return;
        };
        if f.definition.name.as_str() != f.name.as_str() || f.definition.ty.to_string() != rd.ty.print() {
            self.fail(
                "C18|definition-mismatch|reference-type",
                format!("field `{}` on `{}`: definition `{}: {}`, reference `{}: {}`", f.name, parent, f.definition.name, f.definition.ty, rd.name, rd.ty.print()),
            );
        }
        let a: Vec<&str> = f.definition.arguments.iter().map(|a| a.name.as_str()).collect();
        let b: Vec<&str> = rd.args.iter().map(|a| a.name.as_str()).collect();
        if a != b {
            self.fail("C18|definition-mismatch|reference-arguments", format!("field `{}` on `{}`: arguments {:?} vs reference {:?}", f.name, parent, a, b));
        }
        let inner = rd.ty.inner_name().to_string();
        self.set(&f.selection_set, &inner, "field");
    }
}

fn value_vars(v: &ast::Value, out: &mut BTreeSet<String>) {
    match v {
        ast::Value::Variable(n) => {
            out.insert(n.to_string());
        }
        ast::Value::List(l) => l.iter().for_each(|x| value_vars(x, out)),
        ast::Value::Object(o) => o.iter().for_each(|(_, x)| value_vars(x, out)),
        _ => {}
    }
}

fn directive_vars(ds: &ast::DirectiveList, out: &mut BTreeSet<String>) {
    for d in ds.iter() {
        for a in &d.arguments {
            value_vars(&a.value, out);
        }
    }
}

/// Reference traversal of the typed document: the closure of named fragments reachable from
/// `set` (through field sub-selections too iff `deep`), and the field nodes of `set` and of every
/// reachable fragment.
fn closure<'d>(doc: &'d ExecutableDocument, set: &'d SelectionSet, deep: bool, frags: &mut BTreeSet<String>, fields: &mut Vec<*const Field>, vars: &mut BTreeSet<String>, unresolved: &mut Vec<String>) {
    for sel in &set.selections {
        match sel {
            Selection::Field(f) => {
                fields.push(&**f as *const Field);
                for a in &f.arguments {
                    value_vars(&a.value, vars);
                }
                directive_vars(&f.directives, vars);
                if deep {
                    closure(doc, &f.selection_set, deep, frags, fields, vars, unresolved);
                }
            }
            Selection::InlineFragment(i) => {
                directive_vars(&i.directives, vars);
                closure(doc, &i.selection_set, deep, frags, fields, vars, unresolved);
            }
            Selection::FragmentSpread(sp) => {
                directive_vars(&sp.directives, vars);
                match doc.fragments.get(&sp.fragment_name) {
                    None => unresolved.push(sp.fragment_name.to_string()),
                    Some(fd) => {
                        if frags.insert(sp.fragment_name.to_string()) {
                            directive_vars(&fd.directives, vars);
                            closure(doc, &fd.selection_set, deep, frags, fields, vars, unresolved);
                        }
                    }
                }
            }
        }
    }
}

fn spreads_of(set: &SelectionSet, out: &mut Vec<String>) {
    for sel in &set.selections {
        match sel {
            Selection::Field(f) => spreads_of(&f.selection_set, out),
            Selection::InlineFragment(i) => spreads_of(&i.selection_set, out),
            Selection::FragmentSpread(sp) => out.push(sp.fragment_name.to_string()),
        }
    }
}

fn has_cycle(doc: &ExecutableDocument) -> bool {
    fn dfs(doc: &ExecutableDocument, n: &str, colour: &mut BTreeMap<String, u8>) -> bool {
        match colour.get(n) {
            Some(1) => return true,
            Some(2) => return false,
            _ => {}
        }
        let Some(fd) = doc.fragments.get(n) else { return false };
        colour.insert(n.to_string(), 1);
        let mut out = vec![];
        spreads_of(&fd.selection_set, &mut out);
        for m in out {
            if dfs(doc, &m, colour) {
                return true;
            }
        }
        colour.insert(n.to_string(), 2);
        false
    }
    let mut colour = BTreeMap::new();
    doc.fragments.keys().any(|k| dfs(doc, k.as_str(), &mut colour))
}

fn leaf_composite(rs: &RefSchema, set: &SelectionSet, out: &mut Vec<String>) {
    for sel in &set.selections {
        match sel {
            Selection::Field(f) => {
                let inner = f.definition.ty.inner_named_type().as_str();
                if rs.is_composite(inner) == f.selection_set.selections.is_empty() {
                    out.push(format!("field `{}` of type `{}` {} a sub-selection", f.name, f.definition.ty, if f.selection_set.selections.is_empty() { "lacks" } else { "has" }));
                }
                leaf_composite(rs, &f.selection_set, out);
            }
            Selection::InlineFragment(i) => leaf_composite(rs, &i.selection_set, out),
            Selection::FragmentSpread(_) => {}
        }
    }
}

fn sorted(mut v: Vec<*const Field>) -> Vec<*const Field> {
    v.sort();
    v
}

pub fn check_pair(schema_text: &str, doc_text: &str, label: &str, ctx: &mut Ctx) -> Outcome {
    let Ok(sd) = parse_document(schema_text) else { return ctx.skip("schema text not parsed by the reference parser") };
    let rs = RefSchema::from_document(&sd);
    let schema = match c17::apollo_schema(schema_text) {
        Ok(s) => s,
        Err(_) => return ctx.skip("apollo rejects the schema"),
    };
    let rdoc: Option<rast::Document> = parse_document(doc_text).ok();
    let (doc, build_ok) = match ExecutableDocument::parse(&schema, doc_text, "q.graphql") {
        Ok(d) => (d, true),
        Err(e) => (e.partial, false),
    };
    let mut w = W { schema: &schema, rs: &rs, fails: vec![] };
    for op in doc.operations.iter() {
        let Some(root) = rs.root(match op.operation_type {
            ast::OperationType::Query => rast::OpType::Query,
            ast::OperationType::Mutation => rast::OpType::Mutation,
            ast::OperationType::Subscription => rast::OpType::Subscription,
        }) else {
            w.fail("C18|operation-without-root", format!("operation {:?} is present but the reference schema has no such root type", op.name));
            continue;
        };
        let root = root.to_string();
        w.set(&op.selection_set, &root, "operation");
    }
    for (name, fd) in doc.fragments.iter() {
        // the reference view of the type condition: a definition of that name (apollo keeps the
        // first one that it could build, so any of them is acceptable; none matching is an error)
        let conds: Vec<String> = rdoc
            .as_ref()
            .map(|d| {
                d.defs
                    .iter()
                    .filter_map(|x| match x {
                        rast::Definition::Fragment(f) if f.name == name.as_str() => Some(f.type_condition.clone()),
                        _ => None,
                    })
                    .collect()
            })
            .unwrap_or_default();
        let exp = if conds.is_empty() || conds.iter().any(|c| c == fd.selection_set.ty.as_str()) { fd.selection_set.ty.to_string() } else { conds[0].clone() };
        w.set(&fd.selection_set, &exp, "fragment-definition");
    }
    let mut has_spread = false;
    for op in doc.operations.iter() {
        let mut v = vec![];
        spreads_of(&op.selection_set, &mut v);
        has_spread |= !v.is_empty();
    }
    ctx.nontrivial = has_spread || doc_text.contains("... {") || doc_text.contains("...{") || doc_text.contains("... @") || doc_text.contains("...@");

    // validity guarantees
    let valid = if build_ok { doc.clone().validate(&schema).ok() } else { None };
    ctx.class(format!("{}|{}", label, if valid.is_some() { "valid" } else if build_ok { "built-invalid" } else { "partial" }));
    if let Some(vdoc) = &valid {
        let d: &ExecutableDocument = vdoc;
        if has_cycle(d) {
            w.fail("C18|valid|cycle", "a validated document has a fragment spread cycle".into());
        } else {
            for op in d.operations.iter() {
                let (mut frags, mut fields, mut vars, mut unresolved) = (BTreeSet::new(), vec![], BTreeSet::new(), vec![]);
                directive_vars(&op.directives, &mut vars);
                closure(d, &op.selection_set, true, &mut frags, &mut fields, &mut vars, &mut unresolved);
                if !unresolved.is_empty() {
                    w.fail("C18|valid|unresolved-spread", format!("validated document spreads undefined fragments {:?}", unresolved));
                }
                for v in &vars {
                    if !op.variables.iter().any(|d| d.name.as_str() == v) {
                        w.fail("C18|valid|undefined-variable", format!("validated operation {:?} uses undefined variable ${}", op.name, v));
                    }
                }
                let mut lc = vec![];
                leaf_composite(&rs, &op.selection_set, &mut lc);
                for f in &frags {
                    leaf_composite(&rs, &d.fragments[f.as_str()].selection_set, &mut lc);
                }
                if let Some(x) = lc.first() {
                    w.fail("C18|valid|leaf-composite", format!("validated document: {}", x));
                }
                // iterators
                let all: Vec<*const Field> = op.all_fields(d).map(|f| &**f as *const Field).collect();
                if sorted(all.clone()) != sorted(fields.clone()) {
                    w.fail("C18|iter|all_fields", format!("all_fields yields {} fields, the reference closure has {}", all.len(), fields.len()));
                }
                let (mut rfrags, mut rfields, mut rv, mut ru) = (BTreeSet::new(), vec![], BTreeSet::new(), vec![]);
                closure(d, &op.selection_set, false, &mut rfrags, &mut rfields, &mut rv, &mut ru);
                let roots: Vec<*const Field> = op.root_fields(d).map(|f| &**f as *const Field).collect();
                if sorted(roots.clone()) != sorted(rfields.clone()) {
                    w.fail("C18|iter|root_fields", format!("root_fields yields {} fields, the reference closure has {}", roots.len(), rfields.len()));
                }
                // document order: a reachable field is yielded before the fields of its own
                // sub-selection, and every root field is also yielded by all_fields
                for r in &roots {
                    if !all.contains(r) {
                        w.fail("C18|iter|root-not-in-all", "a field yielded by root_fields is not yielded by all_fields".into());
                    }
                }
            }
            // the same iterators started from a fragment definition's own selection set
            for fd in d.fragments.values() {
                let (mut fr, mut ff, mut fv, mut fu) = (BTreeSet::new(), vec![], BTreeSet::new(), vec![]);
                closure(d, &fd.selection_set, true, &mut fr, &mut ff, &mut fv, &mut fu);
                let all: Vec<*const Field> = fd.selection_set.all_fields(d).map(|f| &**f as *const Field).collect();
                if sorted(all.clone()) != sorted(ff.clone()) {
                    w.fail("C18|iter|all_fields|fragment", format!("SelectionSet::all_fields on fragment {} yields {} fields, the reference closure has {}", fd.name, all.len(), ff.len()));
                }
                let (mut fr, mut ff, mut fv, mut fu) = (BTreeSet::new(), vec![], BTreeSet::new(), vec![]);
                closure(d, &fd.selection_set, false, &mut fr, &mut ff, &mut fv, &mut fu);
                let roots: Vec<*const Field> = fd.selection_set.root_fields(d).map(|f| &**f as *const Field).collect();
                if sorted(roots.clone()) != sorted(ff.clone()) {
                    w.fail("C18|iter|root_fields|fragment", format!("SelectionSet::root_fields on fragment {} yields {} fields, the reference closure has {}", fd.name, roots.len(), ff.len()));
                }
            }
        }
    } else {
        // the iterators must still terminate and not panic on any built document
        for op in doc.operations.iter() {
            let _ = op.all_fields(&doc).count();
            let _ = op.root_fields(&doc).count();
        }
    }
    let fails: Vec<(String, String)> = w.fails.into_iter().map(|(s, d)| (s, format!("{}\n--- schema\n{}\n--- document\n{}", d, schema_text, doc_text))).collect();
    ctx.pick_failure(fails)
}

pub fn check_text(text: &str, ctx: &mut Ctx) -> Outcome {
    let (s, d) = c17::split_pair(text);
    ctx.set_sample(format!("{}{}{}", s, SEP, d));
    check_pair(&s, &d, "text", ctx)
}

pub fn check(bytes: &[u8], ctx: &mut Ctx) -> Outcome {
    let mut c = Choices::new(bytes);
    let case = c17::gen_case(&mut c, true);
    let schema_text = print_document(&case.schema_doc);
    let doc_text = print_document(&case.doc);
    let label = if case.mutators.is_empty() { "none".to_string() } else { case.mutators.join(",") };
    ctx.set_sample(format!("{}{}{}", schema_text, SEP, doc_text));
    check_pair(&schema_text, &doc_text, &label, ctx)
}
