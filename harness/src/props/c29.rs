//! C29 Type compatibility checks match the specification (all stages exhaustive).
use super::exh::{count_types, nth_type, to_apollo_type};
use crate::refmodel::ast::{Type, Value};
use crate::refmodel::parser::{parse_document, parse_type_whole};
use crate::refmodel::schema::{are_types_compatible, is_valid_implementation_field_type, is_variable_usage_allowed, RefSchema};
use crate::runner::{Ctx, Outcome, Prop, Tier};
use apollo_compiler::validation::{DiagnosticList, Valid};
use apollo_compiler::{ExecutableDocument, Schema};
use std::sync::{Mutex, OnceLock};

/// Named types of stage (a): every kind, two of the kinds that have subtype relations.
const ALL_NAMES: [&str; 7] = ["Obj", "Obj2", "Iface", "Iface2", "Uni", "Int", "In"];
/// Input types among them (variables and argument locations must be input types).
const INPUT_NAMES: [&str; 2] = ["Int", "In"];
/// Output types among them (field types must be output types).
const OUTPUT_NAMES: [&str; 6] = ["Obj", "Obj2", "Iface", "Iface2", "Uni", "Int"];
const SUBTYPE_NAMES: [&str; 9] = ["Obj", "Obj2", "Iface", "Iface2", "Uni", "Int", "In", "Query", "Nope"];

fn depth_a(t: Tier) -> u32 {
    if t == Tier::Quick {
        4
    } else {
        6
    }
}
fn depth_bc(t: Tier) -> u32 {
    if t == Tier::Quick {
        3
    } else {
        4
    }
}
fn n_a(t: Tier) -> u64 {
    count_types(ALL_NAMES.len() as u64, depth_a(t))
}
fn n_b(t: Tier) -> u64 {
    count_types(INPUT_NAMES.len() as u64, depth_bc(t))
}
fn n_c(t: Tier) -> u64 {
    count_types(OUTPUT_NAMES.len() as u64, depth_bc(t))
}

pub fn prop() -> Prop {
    Prop::new(
        "C29",
        "Type compatibility checks match the specification",
        "All stages enumerate their space completely. (a) every ordered pair of type references with at most 3 (thorough 6) \
         list wrappers over {Obj Obj2 Iface Iface2 Uni Int In}: Type::is_assignable_to == AreTypesCompatible. (b) every \
         (location type, location default in {none, value}, variable type, variable default in {none, value, null}) over \
         the input types {Int, In} with at most 2 (4) list wrappers: `query($v: VT = d) { f(a: $v) }` against \
         `type Query { f(a: LT = ld): Int } input In { x: Int }` is valid when IsVariableUsageAllowed holds and has a \
         DisallowedVariableUsage diagnostic when it does not; a `null` default for a non-null variable type is ill-typed \
         and skipped. (c) every (interface field type, implementing field type, implementer kind in {object, interface}) \
         over the output types with at most 2 (4) list wrappers under a schema with Obj < Iface < Iface2, Obj < Iface2, \
         Obj in Uni, Obj2 unrelated: `interface X { f: IT } type|interface Y implements X { f: OT }` validates iff \
         IsValidImplementationFieldType. (d) Schema::is_subtype for all 81 ordered pairs of 9 names. Non-trivial: the two \
         types differ in their wrappers (a-c) / the names differ (d). Distinct by rendered case.",
    )
    .enumerated("assignable", check_assignable, |t| n_a(t) * n_a(t))
    .enumerated("variable-usage", check_var_usage, |t| n_b(t) * 2 * n_b(t) * 3)
    .enumerated("implementation-field-type", check_impl, |t| n_c(t) * n_c(t) * 2)
    .enumerated("subtype-names", check_subtype, |_| (SUBTYPE_NAMES.len() * SUBTYPE_NAMES.len()) as u64)
    .text(check_text)
    .assumptions(&[
        "Type::is_assignable_to(self, target) is AreTypesCompatible(variableType = self, locationType = target), as its doc comment says",
        "Schema::is_subtype(abstract, sub) is the strict relation its doc describes (implements / is a member of); a type is not a subtype of itself",
        "a variable default must be a valid value of the variable type (spec 5.6.1 applied to defaults), so `= null` is only generated for nullable variable types",
        "verdicts are read from apollo's diagnostics: DisallowedVariableUsage / InvalidImplementationFieldType present, or no diagnostics at all; anything else is reported as an unexpected diagnostic",
    ])
}

fn wrappers(t: &Type) -> String {
    match t {
        Type::Named(_) => "N".into(),
        Type::List(i) => format!("[{}]", wrappers(i)),
        Type::NonNull(i) => format!("{}!", wrappers(i)),
    }
}

// ------------------------------------------------------------------------------------------------
// (a)

fn assignable_case(var: &Type, loc: &Type, ctx: &mut Ctx) -> Outcome {
    ctx.set_sample(format!("{} assignable to {}", var.print(), loc.print()));
    ctx.nontrivial = wrappers(var) != wrappers(loc);
    let want = are_types_compatible(var, loc);
    ctx.class(if want { "assignable:yes" } else { "assignable:no" });
    let got = to_apollo_type(var).is_assignable_to(&to_apollo_type(loc));
    if got != want {
        let why = if var.inner_name() != loc.inner_name() { "names" } else { "wrappers" };
        return Outcome::fail(
            format!("C29|assignable|{}|{}", if got { "accepts" } else { "rejects" }, why),
            format!("({}).is_assignable_to({}) = {}, AreTypesCompatible says {}", var.print(), loc.print(), got, want),
        );
    }
    Outcome::Pass
}

pub fn check_assignable(i: u64, ctx: &mut Ctx) -> Outcome {
    let n = n_a(ctx.tier);
    let d = depth_a(ctx.tier);
    let var = nth_type(i / n, &ALL_NAMES, d);
    let loc = nth_type(i % n, &ALL_NAMES, d);
    assignable_case(&var, &loc, ctx)
}

// ------------------------------------------------------------------------------------------------
// (b)

/// A non-null literal that is valid for an input type over {Int, In}.
fn literal_for(t: &Type) -> String {
    match t {
        Type::NonNull(i) => literal_for(i),
        Type::List(i) => format!("[{}]", literal_for(i)),
        Type::Named(n) if n == "In" => "{x: 1}".into(),
        Type::Named(_) => "1".into(),
    }
}

#[derive(Clone, Copy, PartialEq, Debug)]
enum VarDefault {
    None,
    Value,
    Null,
}

fn error_names(d: &DiagnosticList) -> Vec<String> {
    d.iter().map(|x| x.error.unstable_error_name().map(|s| s.to_string()).unwrap_or_else(|| format!("unnamed: {}", x.error))).collect()
}

fn location_schema(loc: &Type, loc_default: bool) -> Result<Valid<Schema>, String> {
    // one schema per (location type, location default); cached per process
    static CACHE: OnceLock<Mutex<std::collections::BTreeMap<(String, bool), Result<Valid<Schema>, String>>>> = OnceLock::new();
    let key = (loc.print(), loc_default);
    let cache = CACHE.get_or_init(|| Mutex::new(Default::default()));
    let mut g = cache.lock().unwrap();
    if let Some(s) = g.get(&key) {
        return s.clone();
    }
    let ld = if loc_default { format!(" = {}", literal_for(loc)) } else { String::new() };
    let sdl = format!("type Query {{ f(a: {}{}): Int }} input In {{ x: Int }}", loc.print(), ld);
    let built = Schema::parse_and_validate(sdl.clone(), "schema.graphql").map_err(|e| format!("{} -> {:?}", sdl, error_names(&e.errors)));
    g.insert(key, built.clone());
    built
}

fn var_usage_case(var: &Type, vd: VarDefault, loc: &Type, loc_default: bool, ctx: &mut Ctx) -> Outcome {
    let d = match vd {
        VarDefault::None => String::new(),
        VarDefault::Value => format!(" = {}", literal_for(var)),
        VarDefault::Null => " = null".into(),
    };
    let ld = if loc_default { format!(" = {}", literal_for(loc)) } else { String::new() };
    let doc = format!("query($v: {}{}) {{ f(a: $v) }}", var.print(), d);
    ctx.set_sample(format!("{}   against   f(a: {}{})", doc, loc.print(), ld));
    if vd == VarDefault::Null && var.is_non_null() {
        return ctx.skip("`= null` is not a valid default for a non-null variable type");
    }
    ctx.nontrivial = wrappers(var) != wrappers(loc);
    let ref_default = match vd {
        VarDefault::None => None,
        VarDefault::Value => Some(Value::int(1)), // any non-null value: only null-ness matters to the rule
        VarDefault::Null => Some(Value::Null),
    };
    let want = is_variable_usage_allowed(var, ref_default.as_ref(), loc, loc_default);
    ctx.class(format!("var-usage:{}:default-{:?}:loc-default-{}", if want { "allowed" } else { "disallowed" }, vd, loc_default));
    let schema = match location_schema(loc, loc_default) {
        Ok(s) => s,
        Err(e) => return Outcome::fail("C29|var-usage|schema-rejected", format!("the minimal schema is rejected: {}", e)),
    };
    let names = match ExecutableDocument::parse_and_validate(&schema, doc.clone(), "doc.graphql") {
        Ok(_) => vec![],
        Err(e) => error_names(&e.errors),
    };
    let disallowed = names.iter().any(|n| n == "DisallowedVariableUsage");
    let others: Vec<&String> = names.iter().filter(|n| *n != "DisallowedVariableUsage").collect();
    if !others.is_empty() {
        return Outcome::fail(
            format!("C29|var-usage|unexpected-diagnostic|{}", others[0]),
            format!("{} against f(a: {}{}) yields {:?}", doc, loc.print(), ld, names),
        );
    }
    if disallowed == want {
        // apollo disallows what the rule allows, or the reverse
        let class = if !want {
            // which clause makes it illegal?
            if vd == VarDefault::Null && is_variable_usage_allowed(var, Some(&Value::int(1)), loc, loc_default) {
                "null-default"
            } else if loc.is_non_null() && !var.is_non_null() && are_types_compatible(var, loc.nullable()) {
                "no-default"
            } else {
                "incompatible-types"
            }
        } else if loc.is_non_null() && !var.is_non_null() {
            "nullable-variable-with-default"
        } else {
            "compatible-types"
        };
        return Outcome::fail(
            format!("C29|var-usage|{}|{}", if want { "rejects" } else { "accepts" }, class),
            format!(
                "{} against f(a: {}{}): apollo {} the usage, IsVariableUsageAllowed = {}",
                doc,
                loc.print(),
                ld,
                if disallowed { "disallows" } else { "allows" },
                want
            ),
        );
    }
    Outcome::Pass
}

pub fn check_var_usage(i: u64, ctx: &mut Ctx) -> Outcome {
    let n = n_b(ctx.tier);
    let d = depth_bc(ctx.tier);
    // location-major order so that consecutive cases share a schema
    let vd = [VarDefault::None, VarDefault::Value, VarDefault::Null][(i % 3) as usize];
    let r = i / 3;
    let var = nth_type(r % n, &INPUT_NAMES, d);
    let r = r / n;
    let loc_default = r % 2 == 1;
    let loc = nth_type(r / 2, &INPUT_NAMES, d);
    var_usage_case(&var, vd, &loc, loc_default, ctx)
}

// ------------------------------------------------------------------------------------------------
// (c), (d)

const FIXED_SDL: &str = "type Query { q: Int } \
interface Iface2 { i2: Int } \
interface Iface implements Iface2 { i2: Int i: Int } \
type Obj implements Iface & Iface2 { i2: Int i: Int o: Int } \
type Obj2 { o2: Int } \
union Uni = Obj \
input In { x: Int } ";

fn impl_sdl(iface_ty: &Type, impl_ty: &Type, interface_implementer: bool) -> String {
    format!(
        "{}interface X {{ f: {} }} {} Y implements X {{ f: {} }}",
        FIXED_SDL,
        iface_ty.print(),
        if interface_implementer { "interface" } else { "type" },
        impl_ty.print()
    )
}

fn fixed_ref_schema() -> &'static RefSchema {
    static S: OnceLock<RefSchema> = OnceLock::new();
    S.get_or_init(|| {
        let sdl = impl_sdl(&Type::named("Int"), &Type::named("Int"), false);
        RefSchema::from_document(&parse_document(&sdl).expect("fixed SDL parses"))
    })
}

fn impl_case(iface_ty: &Type, impl_ty: &Type, interface_implementer: bool, ctx: &mut Ctx) -> Outcome {
    let sdl = impl_sdl(iface_ty, impl_ty, interface_implementer);
    ctx.set_sample(sdl[FIXED_SDL.len()..].to_string());
    ctx.nontrivial = wrappers(iface_ty) != wrappers(impl_ty);
    let want = is_valid_implementation_field_type(fixed_ref_schema(), impl_ty, iface_ty);
    ctx.class(format!("impl:{}:{}", if interface_implementer { "interface" } else { "object" }, if want { "valid" } else { "invalid" }));
    let names = match Schema::parse_and_validate(sdl.clone(), "schema.graphql") {
        Ok(_) => vec![],
        Err(e) => error_names(&e.errors),
    };
    let invalid = names.iter().any(|n| n == "InvalidImplementationFieldType");
    let others: Vec<&String> = names.iter().filter(|n| *n != "InvalidImplementationFieldType").collect();
    if !others.is_empty() {
        return Outcome::fail(format!("C29|impl-field-type|unexpected-diagnostic|{}", others[0]), format!("{} yields {:?}", sdl, names));
    }
    if invalid == want {
        let why = if wrappers(iface_ty) == wrappers(impl_ty) {
            "named-subtype"
        } else if iface_ty.inner_name() == impl_ty.inner_name() {
            "wrappers"
        } else {
            "wrappers-and-names"
        };
        return Outcome::fail(
            format!("C29|impl-field-type|{}|{}", if want { "rejects" } else { "accepts" }, why),
            format!(
                "interface X {{ f: {} }} implemented with f: {}: apollo says {}, IsValidImplementationFieldType = {}",
                iface_ty.print(),
                impl_ty.print(),
                if invalid { "invalid" } else { "valid" },
                want
            ),
        );
    }
    Outcome::Pass
}

pub fn check_impl(i: u64, ctx: &mut Ctx) -> Outcome {
    let n = n_c(ctx.tier);
    let d = depth_bc(ctx.tier);
    let interface_implementer = i % 2 == 1;
    let r = i / 2;
    let impl_ty = nth_type(r % n, &OUTPUT_NAMES, d);
    let iface_ty = nth_type(r / n, &OUTPUT_NAMES, d);
    impl_case(&iface_ty, &impl_ty, interface_implementer, ctx)
}

fn fixed_apollo_schema() -> &'static Result<Valid<Schema>, String> {
    static S: OnceLock<Result<Valid<Schema>, String>> = OnceLock::new();
    S.get_or_init(|| {
        let sdl = impl_sdl(&Type::named("Int"), &Type::named("Int"), false);
        Schema::parse_and_validate(sdl, "schema.graphql").map_err(|e| format!("{:?}", error_names(&e.errors)))
    })
}

fn subtype_case(sup: &str, sub: &str, ctx: &mut Ctx) -> Outcome {
    ctx.set_sample(format!("is_subtype({}, {})", sup, sub));
    ctx.nontrivial = sup != sub;
    let schema = match fixed_apollo_schema() {
        Ok(s) => s,
        Err(e) => return Outcome::fail("C29|subtype|schema-rejected", format!("the fixed schema is rejected: {}", e)),
    };
    let rs = fixed_ref_schema();
    let want = sup != sub && rs.kind(sup).is_some() && rs.kind(sub).is_some() && rs.is_named_subtype(sup, sub);
    ctx.class(if want { "subtype:yes" } else { "subtype:no" });
    let got = schema.is_subtype(sup, sub);
    if got != want {
        return Outcome::fail(
            format!("C29|subtype|{}", if got { "accepts" } else { "rejects" }),
            format!("Schema::is_subtype({:?}, {:?}) = {}, the schema's subtype relation says {}", sup, sub, got, want),
        );
    }
    Outcome::Pass
}

pub fn check_subtype(i: u64, ctx: &mut Ctx) -> Outcome {
    let n = SUBTYPE_NAMES.len() as u64;
    subtype_case(SUBTYPE_NAMES[(i / n) as usize], SUBTYPE_NAMES[(i % n) as usize], ctx)
}

// ------------------------------------------------------------------------------------------------
// replay of {"text": "..."}: tier-independent descriptions of one case
//   assignable <VarType> <LocType>
//   var-usage <VarType> <none|value|null> <LocType> <none|value>
//   impl <InterfaceFieldType> <ImplFieldType> <object|interface>
//   subtype <Abstract> <Sub>

pub fn check_text(s: &str, ctx: &mut Ctx) -> Outcome {
    let w: Vec<&str> = s.split_whitespace().collect();
    let ty = |x: &str| parse_type_whole(x).ok();
    match w.as_slice() {
        ["assignable", a, b] => match (ty(a), ty(b)) {
            (Some(a), Some(b)) => assignable_case(&a, &b, ctx),
            _ => Outcome::fail("C29|replay|bad-text", s),
        },
        ["var-usage", vt, vd, lt, ld] => {
            let vd = match *vd {
                "none" => VarDefault::None,
                "value" => VarDefault::Value,
                "null" => VarDefault::Null,
                _ => return Outcome::fail("C29|replay|bad-text", s),
            };
            match (ty(vt), ty(lt)) {
                (Some(v), Some(l)) => var_usage_case(&v, vd, &l, *ld == "value", ctx),
                _ => Outcome::fail("C29|replay|bad-text", s),
            }
        }
        ["impl", it, ot, kind] => match (ty(it), ty(ot)) {
            (Some(i), Some(o)) => impl_case(&i, &o, *kind == "interface", ctx),
            _ => Outcome::fail("C29|replay|bad-text", s),
        },
        ["subtype", a, b] => subtype_case(a, b, ctx),
        _ => Outcome::fail("C29|replay|bad-text", s),
    }
}
