//! C02 The document syntax tree is lossless.
use crate::apollo::parse::{self, Entry};
use crate::choices::Choices;
use crate::runner::{Ctx, Outcome, Prop, Tier};

pub fn prop() -> Prop {
    Prop::new(
        "C02",
        "The document syntax tree is lossless",
        "Cases: texts from C01's sources (arbitrary Unicode, token soup, generated documents with token/char \
         mutations and truncation, nesting templates, repository test files mutated), no token limit, random \
         recursion limit. Oracle: tree text == input; concatenated leaf tokens == input; every node/token range on \
         char boundaries; children tile their parent. Non-trivial: the input has at least one lexer or parser \
         error; distinct by (text, recursion limit).",
    )
    .random("texts", check, |t| if t == Tier::Quick { 1_500_000 } else { 12_000_000 }, |t| if t == Tier::Quick { 300 } else { 700 })
    .text(check_text_default)
}

pub fn check_text(src: &str, rl: Option<usize>, ctx: &mut Ctx) -> Outcome {
    let p = parse::parse(Entry::Document, src, None, rl);
    let errs = p.errors.len();
    let w = parse::walk(&p.root, src);
    let tree_text = p.root.text().to_string();
    ctx.nontrivial = errs > 0;
    ctx.class(if errs == 0 { "no-errors" } else if p.errors.iter().any(|e| e.is_limit) { "recursion-limit" } else { "syntax-errors" });
    if tree_text != src || w.leaf_text != src {
        let got = if tree_text != src { &tree_text } else { &w.leaf_text };
        // Root-cause classification: is the lost text exactly the tokens that the type parser
        // reported with "expected (item) type" (grammar/ty.rs pops the offending token and never
        // adds it to the tree)?
        let mut ranges: Vec<(usize, usize)> = p
            .errors
            .iter()
            .filter(|e| !e.is_limit && !e.is_eof && e.len > 0 && (e.message == "expected item type" || e.message == "expected a type"))
            .map(|e| (e.index, e.index + e.len))
            .filter(|(a, b)| *b <= src.len() && src.is_char_boundary(*a) && src.is_char_boundary(*b))
            .collect();
        ranges.sort();
        ranges.dedup();
        let div = src.bytes().zip(got.bytes()).position(|(a, b)| a != b).unwrap_or(src.len().min(got.len()));
        // "expected a type" is also reported by a site that keeps the token (grammar/field.rs), so
        // look for the subset of reported tokens whose removal reproduces the tree text.
        if !ranges.is_empty() && ranges.len() <= 4000 {
            if let Some(n) = dropped_subset(src, got, &ranges) {
                return Outcome::fail(
                    "C02|dropped-token|type-parser-pops-offending-token",
                    format!(
                        "tree text lacks exactly {} token(s) reported as 'expected (item) type' (first loss near byte {}): input {:?} tree {:?}",
                        n, div, src, got
                    ),
                );
            }
        }
        // After a limit error the parser suppresses further errors, so the same root cause is
        // recognised structurally: the tree is the input minus whole tokens, each of which
        // directly follows `[` or `:` (a type position).
        if p.errors.iter().any(|e| e.is_limit) {
            let (items, _) = crate::apollo::lex::items(src, None, src.len() + 3);
            let mut pos = 0usize;
            let mut prev_sig: Option<&str> = None;
            let mut dropped = 0usize;
            let mut structural = true;
            for it in &items {
                if it.len == 0 {
                    continue;
                }
                let t = &src[it.start..it.start + it.len];
                let ignored = matches!(it.kind, Some(apollo_parser::TokenKind::Whitespace) | Some(apollo_parser::TokenKind::Comment) | Some(apollo_parser::TokenKind::Comma));
                if got[pos..].starts_with(t) {
                    pos += t.len();
                } else {
                    dropped += 1;
                    if ignored || !it.ok || !matches!(prev_sig, Some("[") | Some(":")) {
                        structural = false;
                        break;
                    }
                }
                if !ignored {
                    prev_sig = Some(t);
                }
            }
            if structural && dropped > 0 && pos == got.len() {
                return Outcome::fail(
                    "C02|dropped-token|type-parser-pops-offending-token",
                    format!(
                        "after a recursion-limit error (errors suppressed) the tree text lacks {} whole token(s), each directly after `[` or `:` (first loss near byte {}): input {:?} tree {:?}",
                        dropped, div, src, got
                    ),
                );
            }
        }
        let near = p
            .errors
            .iter()
            .filter(|e| e.index <= div)
            .last()
            .map(|e| e.message.clone())
            .unwrap_or_else(|| "no error before divergence".into());
        let kind = if got.len() < src.len() { "dropped-text" } else if got.len() > src.len() { "extra-text" } else { "changed-text" };
        let near_norm: String = near.split(", got").next().unwrap_or(&near).to_string();
        return Outcome::fail(
            format!("C02|{}|{}", kind, near_norm),
            format!("tree text differs from input at byte {}: input {:?} tree {:?} (nearest error: {})", div, src, got, near),
        );
    }
    if let Some(pb) = w.problem {
        return Outcome::fail("C02|ranges", format!("{} for input {:?}", pb, src));
    }
    Outcome::Pass
}

/// Is `got` exactly `src` without some of the (sorted, non-overlapping after filtering) `ranges`?
/// Returns how many ranges were dropped. Memoised search over (range index, position in `got`).
fn dropped_subset(src: &str, got: &str, ranges: &[(usize, usize)]) -> Option<u32> {
    fn go(k: usize, at_src: usize, at_got: usize, src: &[u8], got: &[u8], ranges: &[(usize, usize)], dead: &mut std::collections::HashSet<(usize, usize)>) -> Option<u32> {
        if k == ranges.len() {
            return (src[at_src..] == got[at_got.min(got.len())..]).then_some(0);
        }
        if dead.contains(&(k, at_got)) {
            return None;
        }
        let (a, b) = ranges[k];
        if a < at_src {
            return go(k + 1, at_src, at_got, src, got, ranges, dead);
        }
        let seg = &src[at_src..a];
        if at_got + seg.len() > got.len() || &got[at_got..at_got + seg.len()] != seg {
            dead.insert((k, at_got));
            return None;
        }
        let ng = at_got + seg.len();
        // dropped
        if let Some(n) = go(k + 1, b, ng, src, got, ranges, dead) {
            return Some(n + 1);
        }
        // kept
        let tok = &src[a..b];
        if ng + tok.len() <= got.len() && &got[ng..ng + tok.len()] == tok {
            if let Some(n) = go(k + 1, b, ng + tok.len(), src, got, ranges, dead) {
                return Some(n);
            }
        }
        dead.insert((k, at_got));
        None
    }
    let mut dead = std::collections::HashSet::new();
    match go(0, 0, 0, src.as_bytes(), got.as_bytes(), ranges, &mut dead) {
        Some(n) if n > 0 => Some(n),
        _ => None,
    }
}

fn check_text_default(src: &str, ctx: &mut Ctx) -> Outcome {
    check_text(src, None, ctx)
}

pub fn check(bytes: &[u8], ctx: &mut Ctx) -> Outcome {
    let mut c = Choices::new(bytes);
    let (text, source, _n) = super::c01::gen_text(&mut c, ctx.tier);
    let rl = match c.weighted(&[60, 10, 10, 10, 10]) {
        0 => None,
        1 => Some(0),
        2 => Some(1),
        3 => Some(c.range(2, 20)),
        _ => Some(c.range(21, 500)),
    };
    ctx.class(source);
    ctx.set_sample(format!("rl={:?} text={:?}", rl, crate::runner::truncate(&text, 300)));
    ctx.key = Some(crate::choices::fnv(format!("{:?}|{}", rl, text).as_bytes()));
    check_text(&text, rl, ctx)
}
