//! C10 Names, numbers and type references are well-formed.
//!
//! (a) every way of making a `Name` from a string accepts exactly `[_A-Za-z][_0-9A-Za-z]*`;
//! (b) `IntValue` / `FloatValue` deserialization accepts exactly the IntValue / FloatValue grammar;
//! (c) `IntValue::from(i32)` / `FloatValue::from(f64)` give grammatical literals that convert back;
//! (d) `Type::parse(t.to_string()) == t`.
use super::exh::{count_strings, count_types, nth_string, nth_type, ref_is_name, to_apollo_type};
use crate::choices::Choices;
use crate::gen::text;
use crate::refmodel::ast::Type;
use crate::refmodel::lexer::{lex_at, K};
use crate::refmodel::parser::parse_type_whole;
use crate::runner::{catch, Ctx, Outcome, Prop, Tier};
use apollo_compiler::ast;
use apollo_compiler::Name;
use std::sync::Arc;

/// Alphabet of the exhaustive name stage: letters of both cases, `_`, digits, an ASCII
/// punctuation character, a space, two non-ASCII *letters* (so `is_alphanumeric` vs
/// `is_ascii_alphanumeric` matters: `é` is C3 A9, `ª` is C2 AA — every byte of `ª` is also a Latin-1
/// letter, which matters because apollo validates names bytewise), `$` and NUL.
pub const NAME_ALPHABET: [char; 11] = ['a', 'Z', '_', '0', '9', '-', ' ', 'é', 'ª', '$', '\u{0}'];
/// Alphabet of the exhaustive numeric-literal stage.
pub const NUM_ALPHABET: [char; 10] = ['0', '1', '9', '-', '+', '.', 'e', 'E', 'a', ' '];

fn name_len(t: Tier) -> u32 {
    if t == Tier::Quick {
        5
    } else {
        6
    }
}
fn num_len(t: Tier) -> u32 {
    if t == Tier::Quick {
        5
    } else {
        6
    }
}

const SHAPE_NAMES: [&str; 4] = ["a", "Int", "null", "_0"];

pub fn prop() -> Prop {
    Prop::new(
        "C10",
        "Names, numbers and type references are well-formed",
        "Enumerated stages (complete): every string of length <= 5 (thorough 6) over {a Z _ 0 9 - SPACE é ª $ NUL} through \
         every Name constructor/deserializer; every string of length <= 5 (6) over {0 1 9 - + . e E a SPACE} through \
         IntValue/FloatValue deserialization; a fixed list of boundary i32 and f64 values (all powers of two and ten, \
         their neighbours, subnormals, extremes); every type shape to nesting 6 over 4 names. Random stages: arbitrary \
         Unicode strings and name-like strings with one defect; number-shaped strings with defects; i32/f64 from random \
         bit patterns; type references to nesting 6 over random valid names. Oracles: the Name grammar written \
         directly; the reference lexer (a literal is valid iff it is exactly one Int / Float token); numeric equality \
         after try_to_i32/try_to_f64 and after re-parsing the serialized literal inside a document; the reference type \
         parser plus apollo's own Type::parse for the round trip. Non-trivial: a name candidate that is non-ASCII or \
         starts with a digit; a literal candidate containing '.', 'e' or 'E'; a float with |decimal exponent| > 20 or \
         subnormal; a type with at least one list wrapper. Distinct by rendered case.",
    )
    .enumerated("names-exhaustive", check_name_index, |t| count_strings(NAME_ALPHABET.len() as u64, name_len(t)))
    .enumerated("numeric-literals-exhaustive", check_numlit_index, |t| count_strings(10, num_len(t)))
    .enumerated("boundary-values", check_boundary_index, |_| boundary_total())
    .enumerated("type-shapes", check_shape_index, |_| count_types(SHAPE_NAMES.len() as u64, 6))
    .random(
        "names-unicode",
        check_name_random,
        |t| if t == Tier::Quick { 60_000 } else { 1_500_000 },
        |_| 64,
    )
    .random(
        "numeric-literals-random",
        check_numlit_random,
        |t| if t == Tier::Quick { 60_000 } else { 1_500_000 },
        |_| 48,
    )
    .random(
        "values-random",
        check_value_random,
        |t| if t == Tier::Quick { 80_000 } else { 2_000_000 },
        |_| 24,
    )
    .random(
        "types-random",
        check_type_random,
        |t| if t == Tier::Quick { 40_000 } else { 1_000_000 },
        |_| 64,
    )
    .text(check_text)
    .assumptions(&[
        "Name::new_static is exercised only in the enumerated stage (each candidate is leaked once); random strings skip it",
        "deserialization is observed through serde_json: from_str of the JSON encoding (visit_str) and from_value of a JSON string (visit_string)",
        "numeric equality is f64 `==` (so -0.0 equals 0.0); non-finite f64 are outside the property and never generated",
        "the reference conversion of a decimal literal to f64 is Rust's std `str::parse::<f64>` (correctly rounded)",
        "type names are arbitrary valid Names, including keywords such as `null`, `on`, `type` (NamedType is any Name)",
    ])
}

// ------------------------------------------------------------------------------------------------
// (a) names

fn name_defect(s: &str) -> &'static str {
    let Some(first) = s.chars().next() else { return "empty" };
    if first.is_ascii_digit() {
        return "digit-start";
    }
    for c in s.chars() {
        if c == '_' || c.is_ascii_alphanumeric() {
            continue;
        }
        return if !c.is_ascii() {
            if c.is_alphanumeric() {
                "non-ascii-alphanumeric"
            } else {
                "non-ascii-other"
            }
        } else if c.is_ascii_control() {
            "ascii-control"
        } else if c == ' ' {
            "space"
        } else {
            "ascii-punctuation"
        };
    }
    "none"
}

fn name_checks(s: &str, with_static: bool, fails: &mut Vec<(String, String)>) {
    let want = ref_is_name(s);
    let defect = name_defect(s);
    let mut obs = |entry: &str, got: Result<Name, String>| match got {
        Ok(n) => {
            if !want {
                fails.push((
                    format!("C10|name|accepts|{}|{}", entry, defect),
                    format!("{} accepted {:?}, which is not a GraphQL Name", entry, s),
                ));
            } else if n.as_str() != s {
                fails.push((
                    format!("C10|name|value|{}", entry),
                    format!("{} of {:?} holds {:?}", entry, s, n.as_str()),
                ));
            }
        }
        Err(e) => {
            if want {
                fails.push((
                    format!("C10|name|rejects|{}", entry),
                    format!("{} rejected the valid Name {:?}: {}", entry, s, e),
                ));
            }
        }
    };
    obs("Name::new", Name::new(s).map_err(|e| e.to_string()));
    obs("TryFrom<&str>", Name::try_from(s).map_err(|e| e.to_string()));
    obs("TryFrom<String>", Name::try_from(s.to_string()).map_err(|e| e.to_string()));
    obs("TryFrom<&String>", Name::try_from(&s.to_string()).map_err(|e| e.to_string()));
    obs("TryFrom<Arc<str>>", Name::try_from(Arc::<str>::from(s)).map_err(|e| e.to_string()));
    let json = serde_json::to_string(s).expect("a string encodes");
    obs("Deserialize/from_str", serde_json::from_str::<Name>(&json).map_err(|e| e.to_string()));
    obs(
        "Deserialize/from_value",
        serde_json::from_value::<Name>(serde_json::Value::String(s.to_string())).map_err(|e| e.to_string()),
    );
    if with_static {
        let leaked: &'static str = Box::leak(s.to_string().into_boxed_str());
        obs("Name::new_static", Name::new_static(leaked).map_err(|e| e.to_string()));
    }
    let syn = Name::is_valid_syntax(s);
    if syn != want {
        fails.push((
            format!("C10|name|{}|Name::is_valid_syntax|{}", if syn { "accepts" } else { "rejects" }, defect),
            format!("Name::is_valid_syntax({:?}) = {}, the Name grammar says {}", s, syn, want),
        ));
    }
}

fn name_case(s: &str, with_static: bool, ctx: &mut Ctx) -> Outcome {
    ctx.set_sample(format!("name candidate {:?}", s));
    let mut fails = vec![];
    name_checks(s, with_static, &mut fails);
    ctx.sub_evals += if with_static { 9 } else { 8 };
    ctx.nontrivial = !s.is_ascii() || s.starts_with(|c: char| c.is_ascii_digit());
    ctx.class(format!("name:{}", name_defect(s)));
    ctx.pick_failure(fails)
}

pub fn check_name_index(i: u64, ctx: &mut Ctx) -> Outcome {
    let s = nth_string(i, &NAME_ALPHABET);
    name_case(&s, true, ctx)
}

const NAME_DEFECT_CHARS: &[char] = &[
    'é', 'ß', 'Ω', 'я', '中', 'ａ', 'Ａ', '１', '٣', '²', 'ǅ', 'ª', '\u{301}', '\u{200D}', '\u{FEFF}', '\u{0}', '\u{7F}', '\u{85}',
    ' ', '\t', '\n', '-', '.', '$', '@', '!', ':', '"', '\\', '🚀',
];

pub fn valid_name(c: &mut Choices) -> String {
    const FIXED: [&str; 20] = [
        "a", "Int", "String", "_", "__Type", "null", "true", "false", "on", "type", "query", "fragment", "extend", "input", "A1", "_0",
        "x_y_Z9", "Query", "e", "E1",
    ];
    if c.bool(96) {
        return c.pick(&FIXED).to_string();
    }
    const START: &[u8] = b"a_AzZbQ";
    const CONT: &[u8] = b"a_0AzZ9b5Q";
    let mut s = String::new();
    s.push(c.pick(START) as char);
    let n = c.small(12);
    for _ in 0..n {
        s.push(c.pick(CONT) as char);
    }
    s
}

pub fn check_name_random(bytes: &[u8], ctx: &mut Ctx) -> Outcome {
    let mut c = Choices::new(bytes);
    let s = match c.weighted(&[30, 30, 25, 15]) {
        0 => valid_name(&mut c),
        1 => {
            // a valid name with one character inserted or substituted
            let base: Vec<char> = valid_name(&mut c).chars().collect();
            let ch = c.pick(&NAME_DEFECT_CHARS);
            let at = c.choose(base.len() + 1);
            let mut out: Vec<char> = base.clone();
            if c.coin() && at < base.len() {
                out[at] = ch;
            } else {
                out.insert(at, ch);
            }
            out.into_iter().collect()
        }
        2 => text::unicode(&mut c, 8, true),
        _ => {
            // digits, letters of other scripts, separators
            let n = c.range(0, 6);
            (0..n)
                .map(|_| {
                    if c.coin() {
                        c.pick(&NAME_DEFECT_CHARS)
                    } else {
                        c.pick(&['a', 'Z', '_', '0', '9'])
                    }
                })
                .collect()
        }
    };
    name_case(&s, false, ctx)
}

// ------------------------------------------------------------------------------------------------
// (b) numeric literals

/// `Some(K::Int)` / `Some(K::Float)` iff the whole string is exactly one IntValue / FloatValue
/// token of the lexical grammar.
pub fn ref_literal(s: &str) -> Option<K> {
    if s.is_empty() {
        return None;
    }
    match lex_at(s, 0) {
        Ok(t) if t.end == s.len() && matches!(t.kind, K::Int | K::Float) => Some(t.kind),
        _ => None,
    }
}

fn float_accept_defect(s: &str) -> &'static str {
    if let Some(pos) = s.find(['e', 'E']) {
        let exp = &s[pos + 1..];
        let digits = exp.strip_prefix(['+', '-']).unwrap_or(exp);
        if digits.is_empty() && ref_literal(&format!("{}0", s)) == Some(K::Float) {
            return "empty-exponent";
        }
    }
    if ref_literal(s) == Some(K::Int) {
        return "integer-literal";
    }
    "other"
}

fn int_accept_defect(s: &str) -> &'static str {
    let body = s.strip_prefix('-').unwrap_or(s);
    if body.len() > 1 && body.starts_with('0') && body.bytes().all(|b| b.is_ascii_digit()) {
        return "leading-zero";
    }
    if ref_literal(s) == Some(K::Float) {
        return "float-literal";
    }
    "other"
}

fn numlit_checks(s: &str, fails: &mut Vec<(String, String)>) {
    let kind = ref_literal(s);
    let json = serde_json::to_string(s).expect("a string encodes");
    let want_int = kind == Some(K::Int);
    let want_float = kind == Some(K::Float);
    let ints: [(&str, Result<ast::IntValue, String>); 2] = [
        ("from_str", serde_json::from_str::<ast::IntValue>(&json).map_err(|e| e.to_string())),
        (
            "from_value",
            serde_json::from_value::<ast::IntValue>(serde_json::Value::String(s.to_string())).map_err(|e| e.to_string()),
        ),
    ];
    for (entry, got) in ints {
        match got {
            Ok(v) => {
                if !want_int {
                    fails.push((
                        format!("C10|int-deser|accepts|{}", int_accept_defect(s)),
                        format!("IntValue deserialization ({}) accepted {:?}, which is not an IntValue literal", entry, s),
                    ));
                } else if v.as_str() != s {
                    fails.push(("C10|int-deser|value".into(), format!("IntValue from {:?} holds {:?}", s, v.as_str())));
                }
            }
            Err(e) => {
                if want_int {
                    fails.push((
                        "C10|int-deser|rejects".into(),
                        format!("IntValue deserialization ({}) rejected the valid literal {:?}: {}", entry, s, e),
                    ));
                }
            }
        }
    }
    let floats: [(&str, Result<ast::FloatValue, String>); 2] = [
        ("from_str", serde_json::from_str::<ast::FloatValue>(&json).map_err(|e| e.to_string())),
        (
            "from_value",
            serde_json::from_value::<ast::FloatValue>(serde_json::Value::String(s.to_string())).map_err(|e| e.to_string()),
        ),
    ];
    for (entry, got) in floats {
        match got {
            Ok(v) => {
                if !want_float {
                    fails.push((
                        format!("C10|float-deser|accepts|{}", float_accept_defect(s)),
                        format!("FloatValue deserialization ({}) accepted {:?}, which is not a FloatValue literal", entry, s),
                    ));
                } else if v.as_str() != s {
                    fails.push(("C10|float-deser|value".into(), format!("FloatValue from {:?} holds {:?}", s, v.as_str())));
                }
            }
            Err(e) => {
                if want_float {
                    fails.push((
                        "C10|float-deser|rejects".into(),
                        format!("FloatValue deserialization ({}) rejected the valid literal {:?}: {}", entry, s, e),
                    ));
                }
            }
        }
    }
}

fn numlit_case(s: &str, ctx: &mut Ctx) -> Outcome {
    ctx.set_sample(format!("numeric literal candidate {:?}", s));
    let mut fails = vec![];
    numlit_checks(s, &mut fails);
    ctx.sub_evals += 4;
    ctx.nontrivial = s.contains(['.', 'e', 'E']);
    ctx.class(match ref_literal(s) {
        Some(K::Int) => "literal:int",
        Some(K::Float) => "literal:float",
        _ => "literal:invalid",
    });
    ctx.pick_failure(fails)
}

pub fn check_numlit_index(i: u64, ctx: &mut Ctx) -> Outcome {
    let s = nth_string(i, &NUM_ALPHABET);
    numlit_case(&s, ctx)
}

pub fn check_numlit_random(bytes: &[u8], ctx: &mut Ctx) -> Outcome {
    let mut c = Choices::new(bytes);
    let s = match c.weighted(&[45, 20, 15, 10, 10]) {
        0 => text::number_attempt(&mut c),
        1 => c.pick(text::NUMBERS).to_string(),
        2 => {
            // a long well-formed literal, optionally damaged at one position
            let mut s = String::new();
            if c.coin() {
                s.push('-');
            }
            let nd = 1 + c.small(30);
            for k in 0..nd {
                let d = if k == 0 && nd > 1 { 1 + c.choose(9) } else { c.choose(10) };
                s.push((b'0' + d as u8) as char);
            }
            if c.coin() {
                s.push('.');
                let nf = 1 + c.small(20);
                for _ in 0..nf {
                    s.push((b'0' + c.choose(10) as u8) as char);
                }
            }
            if c.coin() {
                s.push(c.pick(&['e', 'E']));
                s.push_str(c.pick(&["", "+", "-"]));
                let ne = 1 + c.small(4);
                for _ in 0..ne {
                    s.push((b'0' + c.choose(10) as u8) as char);
                }
            }
            if c.bool(100) && !s.is_empty() {
                let chars: Vec<char> = s.chars().collect();
                let at = c.choose(chars.len() + 1);
                let ch = c.pick(&['.', 'e', 'E', '+', '-', '0', ' ', '_', 'x', '١', '\u{0}', '\n']);
                let mut out = chars.clone();
                if c.coin() && at < chars.len() {
                    out[at] = ch;
                } else {
                    out.insert(at, ch);
                }
                s = out.into_iter().collect();
            }
            s
        }
        3 => {
            let mut s = text::number_attempt(&mut c);
            let pre = c.pick(&["", " ", "+", "\t", "\u{FEFF}", "0", "--"]);
            s.insert_str(0, pre);
            s.push_str(c.pick(&["", " ", "\n", ",", "e", "E", ".", "f", "L", "١"]));
            s
        }
        _ => text::unicode(&mut c, 6, true),
    };
    numlit_case(&s, ctx)
}

// ------------------------------------------------------------------------------------------------
// (c) values from numbers

/// Independent reading of a decimal integer literal (no std parsing).
fn ref_int_of(text: &str) -> Option<i64> {
    let (neg, body) = match text.strip_prefix('-') {
        Some(b) => (true, b),
        None => (false, text),
    };
    if body.is_empty() || body.len() > 18 {
        return None;
    }
    let mut v: i64 = 0;
    for b in body.bytes() {
        if !b.is_ascii_digit() {
            return None;
        }
        v = v * 10 + (b - b'0') as i64;
    }
    Some(if neg { -v } else { v })
}

/// Parse `{f(a:<literal>)}` with apollo and return the argument value.
fn value_through_document(literal: &str) -> Result<ast::Value, String> {
    let src = format!("{{f(a:{})}}", literal);
    let doc = ast::Document::parse(src.clone(), "v.graphql").map_err(|e| format!("{} does not parse: {}", src, e.errors))?;
    let Some(ast::Definition::OperationDefinition(op)) = doc.definitions.first() else {
        return Err(format!("{}: no operation", src));
    };
    let Some(ast::Selection::Field(f)) = op.selection_set.first() else {
        return Err(format!("{}: no field", src));
    };
    let Some(arg) = f.arguments.first() else {
        return Err(format!("{}: no argument", src));
    };
    Ok((*arg.value).clone())
}

fn int_value_case(v: i32, ctx: &mut Ctx) -> Outcome {
    ctx.set_sample(format!("i32 {}", v));
    ctx.class("value:i32");
    ctx.nontrivial = v < 0 || v.unsigned_abs() >= 1_000_000_000;
    let mut fails: Vec<(String, String)> = vec![];
    let iv = ast::IntValue::from(v);
    let text = iv.as_str().to_string();
    if ref_literal(&text) != Some(K::Int) {
        fails.push(("C10|int-from|grammar".into(), format!("IntValue::from({}) is {:?}, not an IntValue literal", v, text)));
    }
    match iv.try_to_i32() {
        Ok(x) if x == v => {}
        other => fails.push(("C10|int-from|try_to_i32".into(), format!("IntValue::from({}) ({:?}).try_to_i32() = {:?}", v, text, other))),
    }
    match iv.try_to_f64() {
        Ok(x) if x == v as f64 => {}
        other => fails.push(("C10|int-from|try_to_f64".into(), format!("IntValue::from({}) ({:?}).try_to_f64() = {:?}", v, text, other.ok()))),
    }
    let ser = ast::Value::Int(iv.clone()).to_string();
    if ref_literal(&ser) != Some(K::Int) || ref_int_of(&ser) != Some(v as i64) {
        fails.push(("C10|int-from|serialized".into(), format!("Value::Int(from {}) serializes to {:?}", v, ser)));
    } else {
        match value_through_document(&ser) {
            Ok(ast::Value::Int(back)) if back.try_to_i32().ok() == Some(v) => {}
            other => fails.push(("C10|int-from|document".into(), format!("{:?} in a document parses back as {:?}", ser, other))),
        }
    }
    ctx.pick_failure(fails)
}

fn float_value_case(v: f64, ctx: &mut Ctx) -> Outcome {
    assert!(v.is_finite());
    ctx.set_sample(format!("f64 {:e} (bits {:#018x})", v, v.to_bits()));
    let exp10 = if v == 0.0 { 0.0 } else { v.abs().log10() };
    ctx.nontrivial = exp10.abs() > 20.0 || (v != 0.0 && v.abs() < f64::MIN_POSITIVE);
    ctx.class(if v == 0.0 {
        "value:f64-zero"
    } else if v.abs() < f64::MIN_POSITIVE {
        "value:f64-subnormal"
    } else if exp10.abs() > 20.0 {
        "value:f64-extreme"
    } else {
        "value:f64-moderate"
    });
    let mut fails: Vec<(String, String)> = vec![];
    let fv = ast::FloatValue::from(v);
    let text = fv.as_str().to_string();
    if ref_literal(&text) != Some(K::Float) {
        fails.push((
            "C10|float-from|grammar".into(),
            format!("FloatValue::from({:e}) is {:?}, not a FloatValue literal", v, crate::runner::truncate(&text, 80)),
        ));
    }
    match fv.try_to_f64() {
        Ok(x) if x == v => {}
        other => fails.push((
            "C10|float-from|try_to_f64".into(),
            format!("FloatValue::from({:e}) ({:?}).try_to_f64() = {:?}", v, crate::runner::truncate(&text, 80), other.ok()),
        )),
    }
    let ser = ast::Value::Float(fv.clone()).to_string();
    let ser_ok = ref_literal(&ser) == Some(K::Float) && ser.parse::<f64>().ok() == Some(v);
    if !ser_ok {
        fails.push((
            "C10|float-from|serialized".into(),
            format!("Value::Float(from {:e}) serializes to {:?}", v, crate::runner::truncate(&ser, 80)),
        ));
    } else {
        match value_through_document(&ser) {
            Ok(ast::Value::Float(back)) if back.try_to_f64().ok() == Some(v) => {}
            other => fails.push((
                "C10|float-from|document".into(),
                format!("{:?} in a document parses back as {:?}", crate::runner::truncate(&ser, 80), other.map(|x| crate::runner::truncate(&x.to_string(), 80))),
            )),
        }
    }
    ctx.pick_failure(fails)
}

fn boundary_i32() -> Vec<i32> {
    let mut v: Vec<i64> = vec![0, 1, -1, i32::MAX as i64, i32::MIN as i64, i32::MAX as i64 - 1, i32::MIN as i64 + 1];
    for k in 0..=31u32 {
        let p = 1i64 << k;
        v.extend([p, p - 1, p + 1, -p, -p + 1, -p - 1]);
    }
    let mut p = 1i64;
    for _ in 0..=9 {
        v.extend([p, p - 1, p + 1, -p, -p + 1, -p - 1]);
        p *= 10;
    }
    let mut out: Vec<i32> = v.into_iter().filter(|x| *x >= i32::MIN as i64 && *x <= i32::MAX as i64).map(|x| x as i32).collect();
    out.sort();
    out.dedup();
    out
}

fn boundary_f64() -> Vec<f64> {
    let mut base: Vec<f64> = vec![
        0.0,
        f64::from_bits(1),                     // smallest subnormal
        f64::from_bits(2),
        f64::from_bits(0x000F_FFFF_FFFF_FFFF), // largest subnormal
        f64::MIN_POSITIVE,
        f64::MAX,
        f64::EPSILON,
        1e21,
        1e-7,
        1e300,
        1e-5,
        1e16,
        1e15,
        9007199254740992.0,
        9007199254740993.0,
        0.1,
        0.3,
        1.0 / 3.0,
        123456789.125,
        2147483647.0,
        2147483648.0,
        5e-324,
        1.7976931348623157e308,
        2.2250738585072014e-308,
        4.9406564584124654e-324,
    ];
    for k in -1074..=1023i32 {
        base.push(2f64.powi(k));
    }
    for k in -323..=308i32 {
        // the correctly rounded power of ten
        base.push(format!("1e{}", k).parse::<f64>().expect("a float"));
    }
    let mut out: Vec<f64> = vec![];
    for b in base {
        let bits = b.to_bits();
        for nb in [bits, bits.wrapping_sub(1), bits + 1] {
            let x = f64::from_bits(nb);
            if x.is_finite() && x.is_sign_positive() {
                out.push(x);
                out.push(-x);
            }
        }
    }
    out.push(0.0);
    out.push(-0.0);
    out.sort_by(|a, b| a.to_bits().cmp(&b.to_bits()));
    out.dedup_by(|a, b| a.to_bits() == b.to_bits());
    out
}

fn boundaries() -> &'static (Vec<i32>, Vec<f64>) {
    static B: std::sync::OnceLock<(Vec<i32>, Vec<f64>)> = std::sync::OnceLock::new();
    B.get_or_init(|| (boundary_i32(), boundary_f64()))
}

fn boundary_total() -> u64 {
    let b = boundaries();
    (b.0.len() + b.1.len()) as u64
}

pub fn check_boundary_index(i: u64, ctx: &mut Ctx) -> Outcome {
    let b = boundaries();
    let i = i as usize;
    if i < b.0.len() {
        int_value_case(b.0[i], ctx)
    } else {
        float_value_case(b.1[i - b.0.len()], ctx)
    }
}

pub fn check_value_random(bytes: &[u8], ctx: &mut Ctx) -> Outcome {
    let mut c = Choices::new(bytes);
    match c.weighted(&[20, 15, 30, 20, 15]) {
        0 => int_value_case(c.u32() as i32, ctx),
        1 => {
            let b = boundaries();
            let base = b.0[c.choose(b.0.len())];
            int_value_case(base.wrapping_add(c.choose(7) as i32 - 3), ctx)
        }
        2 => {
            // uniformly random bit pattern: covers every binade, subnormals included
            let mut v = f64::from_bits(c.u64());
            if !v.is_finite() {
                v = f64::from_bits(v.to_bits() & !(1u64 << 62));
            }
            float_value_case(v, ctx)
        }
        3 => {
            // short decimals: few significant digits times a power of ten
            let m = c.range(0, 99_999) as f64;
            let e = c.range(0, 60) as i32 - 30;
            let v = format!("{}e{}", m, e).parse::<f64>().unwrap_or(0.0);
            float_value_case(if c.coin() { -v } else { v }, ctx)
        }
        _ => {
            // integers and near-integers stored as floats (the `.0` suffix path)
            let whole = c.u64() >> c.choose(64);
            let v = whole as f64;
            let v = if v.is_finite() { v } else { 0.0 };
            float_value_case(if c.coin() { -v } else { v }, ctx)
        }
    }
}

// ------------------------------------------------------------------------------------------------
// (d) type references

fn type_case(t: &Type, ctx: &mut Ctx) -> Outcome {
    let at = to_apollo_type(t);
    let text = at.to_string();
    ctx.set_sample(format!("type {}", text));
    ctx.nontrivial = t.depth() >= 1;
    ctx.class(format!("type:depth{}", t.depth()));
    // the printed text, read by the independent type parser, denotes the same type
    match parse_type_whole(&text) {
        Ok(rt) if rt == *t => {}
        other => {
            return Outcome::fail(
                "C10|type|print",
                format!("{:?} prints as {:?}, which the reference parser reads as {:?}", t, text, other.map(|x| x.print())),
            )
        }
    }
    match catch(|| ast::Type::parse(text.clone(), "t.graphql")) {
        Ok(Ok(back)) => {
            if back != at {
                return Outcome::fail(
                    "C10|type|roundtrip|differs",
                    format!("Type::parse({:?}) = {:?} (prints {}), expected {:?}", text, back, back, at),
                );
            }
        }
        Ok(Err(diags)) => {
            return Outcome::fail("C10|type|roundtrip|parse-error", format!("Type::parse({:?}) fails: {}", text, diags));
        }
        Err((msg, loc)) => {
            return Outcome::fail("C10|type|roundtrip|panic", format!("Type::parse({:?}) panics: {} at {}", text, msg, loc));
        }
    }
    Outcome::Pass
}

pub fn check_shape_index(i: u64, ctx: &mut Ctx) -> Outcome {
    let t = nth_type(i, &SHAPE_NAMES, 6);
    type_case(&t, ctx)
}

pub fn check_type_random(bytes: &[u8], ctx: &mut Ctx) -> Outcome {
    let mut c = Choices::new(bytes);
    let name = valid_name(&mut c);
    let mut t = Type::Named(name);
    if c.coin() {
        t = t.non_null();
    }
    let depth = c.range(0, 6);
    for _ in 0..depth {
        t = t.list();
        if c.coin() {
            t = t.non_null();
        }
    }
    type_case(&t, ctx)
}

// ------------------------------------------------------------------------------------------------
// replay of {"text": "..."} files: the string is tried as a name and as a numeric literal

pub fn check_text(s: &str, ctx: &mut Ctx) -> Outcome {
    ctx.set_sample(format!("candidate {:?}", s));
    let mut fails = vec![];
    name_checks(s, false, &mut fails);
    numlit_checks(s, &mut fails);
    ctx.nontrivial = true;
    ctx.pick_failure(fails)
}
