//! C22 Outputs are deterministic across processes.
//!
//! A seed-determined workload of inputs is regenerated identically in N fresh child processes
//! (`verif aux --prop C22 --mode run ...`). Every child has its own `ahash` runtime keys (and its own
//! SipHash keys for `std` maps), so any output that depends on hash-map iteration order differs between
//! children with high probability. Per input each child prints FNV digests of every observable output;
//! the parent requires all children to agree, part by part.
use crate::choices::{fnv, hex, unhex, Choices};
use crate::gen::{schema as gschema, syntax, text};
use crate::refmodel::printer;
use crate::runner::{catch, gen_case, truncate, Ctx, CustomReport, Failure, Outcome, Prop, RunCfg, Tier};
use apollo_compiler::validation::{DiagnosticList, Valid};
use apollo_compiler::{ExecutableDocument, Schema};
use serde_json::{json, Value};
use std::collections::BTreeMap;
use std::hash::BuildHasher;
use std::process::{Command, Stdio};

pub fn prop() -> Prop {
    Prop::new(
        "C22",
        "Outputs are deterministic across processes",
        "Cases: a seed-determined workload of inputs (valid generated schemas; the same with token/text mutations; \
         grammatical but semantically arbitrary documents, plain and mutated; an operation document validated against a \
         generated valid schema; operations with several unused / undefined variables and fragments against a generated schema; files of apollo-compiler/test_data, plain and mutated; apollo-smith byte strings), each \
         regenerated and processed in N fresh processes (quick: 16000 inputs x 4 processes, thorough: 60000 x 16) with per-process hash keys. Oracle: for \
         every input and every observable part (AST serialization and parse errors, Schema serialization, \
         ExecutableDocument serialization, DiagnosticList Display text in order, to_json of every diagnostic, full \
         introspection JSON of valid schemas, apollo-smith output) all processes print the same FNV digest. \
         Non-trivial: the input yields at least 2 diagnostics, or a valid schema with at least 2 used or 2 pruned \
         built-in scalars; distinct by input text.",
    )
    // zero-case stage: replays a failing input (the hex is the input's choice vector) in fresh processes
    .random("inputs", check_input, |_| 0, |_| MAX_LEN)
    .custom(custom)
    .assumptions(&[
        "apollo_compiler::collections uses ahash::RandomState with ahash's default features (runtime-rng): keys are drawn from the OS once per process; apollo-smith uses std::collections::HashSet (SipHash keys per process). Every child reports a fingerprint of its hasher and the parent requires at least two different fingerprints, otherwise the run is inconclusive",
        "a panic while processing an input is recorded as the output `PANIC: <message>` and compared like any other output (whether it panics is C21's business)",
        "diagnostics are rendered with Display (documented as colour-free)",
    ])
}

const MAX_LEN: usize = 700;

// ------------------------------------------------------------------------------------------------
// Observation helpers (also used by C31's shared-schema workload)

pub const INTROSPECTION_QUERY: &str = r#"
query IntrospectionQuery {
  __schema {
    description
    queryType { name }
    mutationType { name }
    subscriptionType { name }
    types { ...FullType }
    directives { name description isRepeatable locations args(includeDeprecated: true) { ...InputValue } }
  }
}
fragment FullType on __Type {
  kind name description specifiedByURL
  fields(includeDeprecated: true) {
    name description
    args(includeDeprecated: true) { ...InputValue }
    type { ...TypeRef }
    isDeprecated deprecationReason
  }
  inputFields(includeDeprecated: true) { ...InputValue }
  interfaces { ...TypeRef }
  enumValues(includeDeprecated: true) { name description isDeprecated deprecationReason }
  possibleTypes { ...TypeRef }
}
fragment InputValue on __InputValue {
  name description type { ...TypeRef } defaultValue isDeprecated deprecationReason
}
fragment TypeRef on __Type {
  kind name
  ofType { kind name ofType { kind name ofType { kind name ofType { kind name ofType { kind name ofType { kind name ofType { kind name } } } } } } }
}
"#;

/// Display text of the diagnostics in order, then `to_json` of each.
pub fn diag_parts(prefix: &str, errors: &DiagnosticList, out: &mut Vec<(String, String)>) {
    out.push((format!("{}-errors", prefix), format!("{}", errors)));
    let mut j = String::new();
    for d in errors.iter() {
        j.push_str(&serde_json::to_string(&d.to_json()).unwrap_or_else(|e| format!("<json error {}>", e)));
        j.push('\n');
    }
    out.push((format!("{}-errors-json", prefix), j));
}

/// Run a query against a valid schema through `introspection::partial_execute`; JSON text or error text.
pub fn introspect(schema: &Valid<Schema>, query: &str) -> String {
    match ExecutableDocument::parse_and_validate(schema, query, "introspection.graphql") {
        Err(e) => format!("INVALID QUERY:\n{}", e.errors),
        Ok(doc) => {
            let op = match doc.operations.get(None) {
                Ok(op) => op,
                Err(e) => return format!("NO OPERATION: {}", e.message()),
            };
            let vars = Default::default();
            match apollo_compiler::introspection::partial_execute(schema, &schema.implementers_map(), &doc, op, Valid::assume_valid_ref(&vars)) {
                Ok(resp) => serde_json::to_string(&resp).unwrap_or_else(|e| format!("<json error {}>", e)),
                Err(e) => format!("REQUEST ERROR: {}", e.message()),
            }
        }
    }
}

fn builtin_scalars_used(schema: &Schema) -> usize {
    ["Int", "Float", "String", "Boolean", "ID"].iter().filter(|n| schema.types.contains_key(**n)).count()
}

pub struct Observed {
    pub parts: Vec<(String, String)>,
    pub diagnostics: usize,
    pub valid_schema: bool,
    pub builtin_used: usize,
}

fn guarded_part(label: &str, parts: &mut Vec<(String, String)>, f: impl FnOnce(&mut Vec<(String, String)>)) {
    let mut local = vec![];
    match catch(|| f(&mut local)) {
        Ok(()) => parts.extend(local),
        Err((msg, loc)) => parts.push((label.to_string(), format!("PANIC: {} at {}", msg, loc))),
    }
}

/// Everything observable about one text: as an AST document, as a schema, as an executable document
/// (against `against` when given, else against the schema the same text defines), introspection.
pub fn observe_text(src: &str, against: Option<&str>) -> Observed {
    let mut o = Observed { parts: vec![], diagnostics: 0, valid_schema: false, builtin_used: 0 };
    let mut diags = 0usize;
    let mut valid_schema = false;
    let mut used = 0usize;
    // 1. AST
    guarded_part("ast", &mut o.parts, |p| match apollo_compiler::ast::Document::parse(src, "input.graphql") {
        Ok(doc) => p.push(("ast".into(), doc.to_string())),
        Err(e) => {
            p.push(("ast".into(), e.partial.to_string()));
            diag_parts("ast", &e.errors, p);
        }
    });
    match against {
        None => {
            // 2. the text as a schema
            guarded_part("schema", &mut o.parts, |p| match Schema::parse_and_validate(src, "input.graphql") {
                Ok(s) => {
                    p.push(("schema".into(), s.to_string()));
                    p.push(("introspection".into(), introspect(&s, INTROSPECTION_QUERY)));
                    valid_schema = true;
                    used = builtin_scalars_used(&s);
                }
                Err(e) => {
                    p.push(("schema".into(), e.partial.to_string()));
                    diag_parts("schema", &e.errors, p);
                    diags = diags.max(e.errors.len());
                }
            });
            // 2b. the same text through the builder configured with adopt_orphan_extensions
            guarded_part("adopt", &mut o.parts, |p| match Schema::builder().adopt_orphan_extensions().parse(src, "input.graphql").build() {
                Ok(s) => {
                    p.push(("adopt-schema".into(), s.to_string()));
                    let names: Vec<String> = s.types.keys().map(|k| k.to_string()).collect();
                    p.push(("adopt-types".into(), names.join(",")));
                }
                Err(e) => {
                    p.push(("adopt-schema".into(), e.partial.to_string()));
                    diag_parts("adopt", &e.errors, p);
                }
            });
            // 3. the text as a mixed document (schema + executable definitions in one file)
            guarded_part("mixed", &mut o.parts, |p| match apollo_compiler::parser::Parser::new().parse_mixed_validate(src, "input.graphql") {
                Ok((s, d)) => {
                    p.push(("mixed-schema".into(), s.to_string()));
                    p.push(("mixed-exec".into(), d.to_string()));
                }
                Err(errors) => {
                    diag_parts("mixed", &errors, p);
                    diags = diags.max(errors.len());
                }
            });
        }
        Some(sdl) => {
            guarded_part("exec", &mut o.parts, |p| match Schema::parse_and_validate(sdl, "schema.graphql") {
                Err(e) => {
                    p.push(("exec-schema".into(), e.partial.to_string()));
                    diag_parts("exec-schema", &e.errors, p);
                }
                Ok(s) => {
                    valid_schema = true;
                    used = builtin_scalars_used(&s);
                    match ExecutableDocument::parse_and_validate(&s, src, "input.graphql") {
                        Ok(d) => p.push(("exec".into(), d.to_string())),
                        Err(e) => {
                            p.push(("exec".into(), e.partial.to_string()));
                            diag_parts("exec", &e.errors, p);
                            diags = diags.max(e.errors.len());
                        }
                    }
                }
            });
        }
    }
    o.diagnostics = diags;
    o.valid_schema = valid_schema;
    o.builtin_used = used;
    o
}

// ------------------------------------------------------------------------------------------------
// Workload

pub struct Input {
    pub kind: &'static str,
    pub text: String,
    /// schema the text is validated against (kind "operation-vs-schema")
    pub against: Option<String>,
    /// apollo-smith input bytes (kind "smith")
    pub smith: Option<Vec<u8>>,
}

fn compiler_corpus() -> &'static Vec<String> {
    use std::sync::OnceLock;
    static FILES: OnceLock<Vec<String>> = OnceLock::new();
    FILES.get_or_init(|| {
        let mut out = vec![];
        for dir in ["/repo/crates/apollo-compiler/test_data/ok", "/repo/crates/apollo-compiler/test_data/diagnostics"] {
            let Ok(rd) = std::fs::read_dir(dir) else { continue };
            let mut paths: Vec<_> = rd.filter_map(|e| e.ok()).map(|e| e.path()).collect();
            paths.sort();
            for p in paths {
                if p.extension().map(|e| e == "graphql").unwrap_or(false) {
                    if let Ok(s) = std::fs::read_to_string(&p) {
                        if s.len() < 20_000 {
                            out.push(s);
                        }
                    }
                }
            }
        }
        out
    })
}

fn smith_text(bytes: &[u8]) -> String {
    let r = catch(|| {
        let mut u = arbitrary::Unstructured::new(bytes);
        match apollo_smith::DocumentBuilder::new(&mut u).build() {
            Ok(doc) => String::from(doc),
            Err(e) => format!("# smith error: {}", e),
        }
    });
    match r {
        Ok(s) => s,
        Err((msg, loc)) => format!("# PANIC: {} at {}", msg, loc),
    }
}

/// Total decoder of one workload input.
pub fn gen_input(bytes: &[u8]) -> Input {
    let mut c = Choices::new(bytes);
    let opts = gschema::Opts { max_types: 4, ..Default::default() };
    match c.weighted(&[10, 10, 8, 6, 10, 8, 8, 8, 16, 10, 6, 8, 8]) {
        12 => {
            // beyond size thresholds (the field-merging code switches to a hash map above 20
            // arguments): an input object with many required fields whose literal omits several of
            // them, and a field with many arguments selected twice under one response key with
            // several differing arguments: several diagnostics / several candidate culprits at ONE position
            let n = 21 + c.choose(20);
            let mut sdl = String::from("type Query { wide(");
            for i in 0..n {
                sdl.push_str(&format!("a{}: Int ", i));
            }
            sdl.push_str("): Int obj(o: Wide): Int }\ninput Wide { ");
            for i in 0..n {
                sdl.push_str(&format!("f{}: Int! ", i));
            }
            sdl.push_str("}\n");
            let mut q = String::from("{ ");
            // literal providing a random subset of the required fields
            q.push_str("obj(o: {");
            for i in 0..n {
                if c.bool(150) {
                    q.push_str(&format!("f{}: {} ", i, i));
                }
            }
            q.push_str("}) ");
            // same response key, k differing arguments
            let mut a1 = String::new();
            let mut a2 = String::new();
            for i in 0..n {
                let differs = c.bool(60);
                if c.bool(200) {
                    a1.push_str(&format!("a{}: {} ", i, i));
                    a2.push_str(&format!("a{}: {} ", i, if differs { i + 1000 } else { i }));
                }
            }
            q.push_str(&format!("x: wide({}) x: wide({}) }}", if a1.is_empty() { "a0: 1" } else { &a1 }, if a2.is_empty() { "a0: 2" } else { &a2 }));
            Input { kind: "wide-input-objects-and-argument-lists", text: q, against: Some(sdl), smith: None }
        }
        11 => {
            // several diagnostics at ONE source position whose relative order comes out of grouping by
            // type: a response key selected on an abstract parent that conflicts with the same key in
            // inline fragments on k different object types (field merging groups selections by concrete
            // parent type), optionally one level deeper
            let k = 2 + c.choose(7);
            const NAMES: [&str; 9] = ["Ant", "Bee", "Cat", "Dog", "Eel", "Fox", "Gnu", "Hen", "Ibis"];
            let mut order: Vec<usize> = (0..NAMES.len()).collect();
            for i in 0..k {
                let j = i + c.choose(NAMES.len() - i);
                order.swap(i, j);
            }
            let mut sdl = String::from("type Query { node: Node nodes: [Node] }\ninterface Node { name: String sub: Node }\n");
            for &i in &order[..k] {
                sdl.push_str(&format!("type {} implements Node {{ name: String sub: Node f{}: String g{}(a: Int): Int }}\n", NAMES[i], i, i));
            }
            let mut sel = String::new();
            let args = c.coin();
            for &i in &order[..k] {
                if args {
                    sel.push_str(&format!("... on {} {{ x: g{}(a: {}) }} ", NAMES[i], i, i));
                } else {
                    sel.push_str(&format!("... on {} {{ x: f{} }} ", NAMES[i], i));
                }
            }
            sel.push_str("x: name");
            let text = match c.choose(3) {
                0 => format!("{{ node {{ {sel} }} }}"),
                1 => format!("{{ nodes {{ sub {{ {sel} }} }} }}"),
                _ => format!("query Q {{ node {{ ...F }} }} fragment F on Node {{ {sel} }}"),
            };
            Input { kind: "merge-conflicts-across-types", text, against: Some(sdl), smith: None }
        }
        8 => {
            // C17's pairs: an operation (usually with rule mutations: merge conflicts across inline
            // fragments on several object types, bad variables, ...) against its schema
            let case = super::c17::gen_case(&mut c, true);
            Input { kind: "mutated-operation-vs-schema", text: printer::print_document(&case.doc), against: Some(printer::print_document(&case.schema_doc)), smith: None }
        }
        9 => {
            // C13's definition lists: collisions, kind-mismatched and orphan extensions (also built with
            // adopt_orphan_extensions, see observe_text)
            let (defs, _, _) = super::c13::ts_defs(&mut c, 3);
            let mut text = printer::print_document(&crate::refmodel::ast::Document { defs });
            for k in 0..c.choose(5) {
                text.push_str(&format!("extend {} Orph{} {}\n", ["type", "interface", "input"][c.choose(3)], k, "{ x: Int }"));
            }
            Input { kind: "extensions-and-orphans", text, against: None, smith: None }
        }
        10 => {
            // C21's chains and cycles: many diagnostics, recursion-limit paths
            let a = crate::gen::adversary::adversary(&mut c, false);
            let text = format!("{}\n{}", a.schema, a.exec);
            if text.len() > 20_000 {
                return Input { kind: "adversary", text: "type Query { a: Int }".into(), against: None, smith: None };
            }
            Input { kind: "adversary", text, against: None, smith: None }
        }
        7 => {
            // operations whose diagnostics come out of set/map-shaped bookkeeping: several unused and
            // undefined variables, unused and undefined fragments, repeated names
            let sd = gschema::schema(&mut c, &opts);
            const VARS: [&str; 12] = ["a", "b", "c", "id", "first", "after", "v0", "v1", "v2", "v3", "longer_name_42", "_x"];
            const TYPES: [&str; 6] = ["Int", "String", "Boolean", "ID", "[Int!]", "Float"];
            let mut text = String::new();
            let nops = 1 + c.choose(3);
            for o in 0..nops {
                let nv = 2 + c.choose(7);
                let mut order: Vec<usize> = (0..VARS.len()).collect();
                for i in 0..nv {
                    let j = i + c.choose(VARS.len() - i);
                    order.swap(i, j);
                }
                let defs: Vec<String> = order[..nv].iter().map(|&i| format!("${}: {}", VARS[i], TYPES[c.choose(TYPES.len())])).collect();
                let mut sel = String::from("__typename");
                for k in 0..c.choose(4) {
                    sel.push_str(&format!(" a{}: __typename @skip(if: ${})", k, if c.coin() { VARS[order[c.choose(nv)]] } else { ["undef1", "undef2", "undef3"][c.choose(3)] }));
                }
                for _ in 0..c.choose(3) {
                    sel.push_str(&format!(" ...{}", ["Missing1", "Missing2", "U0", "U1"][c.choose(4)]));
                }
                text.push_str(&format!("query Op{}({}) {{ {} }}\n", if c.bool(40) { 0 } else { o }, defs.join(", "), sel));
            }
            for f in 0..c.choose(5) {
                text.push_str(&format!("fragment U{} on Query {{ __typename b: __typename @include(if: ${}) }}\n", if c.bool(40) { 0 } else { f }, VARS[c.choose(VARS.len())]));
            }
            Input { kind: "variables-and-fragments", text, against: Some(printer::print_document(&sd)), smith: None }
        }
        0 => {
            let mut d = gschema::schema(&mut c, &opts);
            if c.coin() {
                gschema::split_extensions(&mut c, &mut d);
            }
            Input { kind: "valid-schema", text: printer::print_document(&d), against: None, smith: None }
        }
        1 => {
            let d = gschema::schema(&mut c, &opts);
            let mut toks = printer::doc_tokens(&d);
            let text = if c.coin() {
                syntax::mutate_tokens(&mut c, &mut toks, 4);
                printer::join_plain(&toks)
            } else {
                let s = printer::join_plain(&toks);
                text::mutate_text(&mut c, &s, 3)
            };
            Input { kind: "mutated-schema", text, against: None, smith: None }
        }
        2 => {
            let d = syntax::document(&mut c, &syntax::Cfg::default());
            Input { kind: "syntactic-document", text: printer::print_document(&d), against: None, smith: None }
        }
        3 => {
            let d = syntax::document(&mut c, &syntax::Cfg::default());
            let mut toks = printer::doc_tokens(&d);
            syntax::mutate_tokens(&mut c, &mut toks, 3);
            Input { kind: "mutated-document", text: printer::join_plain(&toks), against: None, smith: None }
        }
        4 => {
            let sd = gschema::schema(&mut c, &opts);
            let d = syntax::document(&mut c, &syntax::Cfg { max_depth: 4, executable: true, type_system: false });
            Input { kind: "operation-vs-schema", text: printer::print_document(&d), against: Some(printer::print_document(&sd)), smith: None }
        }
        5 => {
            let files = compiler_corpus();
            if files.is_empty() {
                return Input { kind: "corpus", text: "type Query { a: Int }".into(), against: None, smith: None };
            }
            let f = &files[c.choose(files.len().min(65535))];
            let text = if c.bool(150) { f.clone() } else { text::mutate_text(&mut c, f, 3) };
            Input { kind: "corpus", text, against: None, smith: None }
        }
        _ => {
            let b = c.rest().to_vec();
            let text = smith_text(&b);
            Input { kind: "smith", text, against: None, smith: Some(b) }
        }
    }
}

pub struct Digested {
    pub kind: &'static str,
    pub text: String,
    pub parts: Vec<(String, String)>,
    pub nontrivial: bool,
    pub diagnostics: usize,
}

pub fn run_input(bytes: &[u8]) -> Digested {
    let inp = gen_input(bytes);
    let mut parts = vec![];
    if inp.smith.is_some() {
        parts.push(("smith".to_string(), inp.text.clone()));
    }
    let o = observe_text(&inp.text, inp.against.as_deref());
    parts.extend(o.parts);
    let nontrivial = o.diagnostics >= 2 || (o.valid_schema && (o.builtin_used >= 2 || 5 - o.builtin_used >= 2));
    let text = match &inp.against {
        Some(s) => format!("# schema:\n{}\n# document:\n{}", s, inp.text),
        None => inp.text.clone(),
    };
    Digested { kind: inp.kind, text, parts, nontrivial, diagnostics: o.diagnostics }
}

/// A value that differs between processes iff the hash keys differ.
fn hasher_fingerprint() -> String {
    let m: apollo_compiler::collections::HashMap<u8, u8> = Default::default();
    let a = m.hasher().hash_one(0x5eed_u64);
    let s: std::collections::HashSet<u8> = Default::default();
    let b = s.hasher().hash_one(0x5eed_u64);
    format!("{:016x}/{:016x}", a, b)
}

// ------------------------------------------------------------------------------------------------
// Child entry points

fn arg(args: &[String], name: &str) -> Option<String> {
    args.iter().position(|a| a == name).and_then(|i| args.get(i + 1)).cloned()
}

fn on_big_stack<T: Send + 'static>(f: impl FnOnce() -> T + Send + 'static) -> Option<T> {
    std::thread::Builder::new().stack_size(64 << 20).spawn(f).ok()?.join().ok()
}

pub fn aux(args: &[String]) -> i32 {
    crate::runner::install_panic_hook();
    let mode = arg(args, "--mode").unwrap_or_default();
    match mode.as_str() {
        // regenerate inputs start..end of the workload and print one line per input
        "run" => {
            let seed: u64 = arg(args, "--seed").and_then(|s| s.parse().ok()).unwrap_or(0);
            let start: u64 = arg(args, "--start").and_then(|s| s.parse().ok()).unwrap_or(0);
            let end: u64 = arg(args, "--end").and_then(|s| s.parse().ok()).unwrap_or(0);
            let r = on_big_stack(move || {
                println!("{}", json!({"fingerprint": hasher_fingerprint()}));
                for i in start..end {
                    let bytes = gen_case(seed, "C22", 0, i, MAX_LEN);
                    let d = run_input(&bytes);
                    let parts: Vec<Value> = d.parts.iter().map(|(l, t)| json!([l, format!("{:016x}", fnv(t.as_bytes()))])).collect();
                    println!("{}", json!({"i": i, "kind": d.kind, "nt": d.nontrivial, "diags": d.diagnostics, "key": format!("{:016x}", fnv(d.text.as_bytes())), "parts": parts}));
                }
                println!("{}", json!({"done": true}));
            });
            if r.is_some() {
                0
            } else {
                3
            }
        }
        // one input given as hex: print digests and full texts
        "one" => {
            let bytes = unhex(&arg(args, "--hex").unwrap_or_default());
            let r = on_big_stack(move || {
                let d = run_input(&bytes);
                let parts: Vec<Value> = d.parts.iter().map(|(l, t)| json!([l, format!("{:016x}", fnv(t.as_bytes())), t])).collect();
                println!("{}", json!({"fingerprint": hasher_fingerprint(), "kind": d.kind, "nt": d.nontrivial, "text": d.text, "parts": parts}));
            });
            if r.is_some() {
                0
            } else {
                3
            }
        }
        _ => {
            eprintln!("C22 aux: unknown mode");
            4
        }
    }
}

fn child(exe: &str, args: &[String]) -> Result<(Option<i32>, String), String> {
    let out = Command::new(exe)
        .arg("aux").arg("--prop").arg("C22")
        .args(args)
        .stdin(Stdio::null())
        .stderr(Stdio::null())
        .output()
        .map_err(|e| e.to_string())?;
    Ok((out.status.code(), String::from_utf8_lossy(&out.stdout).to_string()))
}

/// Run one input in `n` fresh processes; returns per process (fingerprint, parts as (label, digest, text)).
fn run_one_in_children(exe: &str, bytes: &[u8], n: usize) -> Result<Vec<(String, Value)>, String> {
    let mut out = vec![];
    for _ in 0..n {
        let (code, text) = child(exe, &["--mode".into(), "one".into(), "--hex".into(), hex(bytes)])?;
        let Some(line) = text.lines().last() else {
            return Err(format!("child printed nothing (status {:?})", code));
        };
        let v: Value = serde_json::from_str(line).map_err(|e| format!("bad child output: {}", e))?;
        out.push((v["fingerprint"].as_str().unwrap_or("").to_string(), v));
    }
    Ok(out)
}

/// Compare the outputs of several processes for one input; Some((label, detail)) at the first difference.
fn first_difference(runs: &[(String, Value)]) -> Option<(String, String)> {
    let first = &runs[0].1;
    for (k, (_, v)) in runs.iter().enumerate().skip(1) {
        let (a, b) = (first["parts"].as_array()?, v["parts"].as_array()?);
        if a.len() != b.len() {
            return Some(("part-count".into(), format!("process 0 produced {} parts, process {} produced {}", a.len(), k, b.len())));
        }
        for (x, y) in a.iter().zip(b.iter()) {
            if x[0] != y[0] || x[1] != y[1] {
                let label = x[0].as_str().unwrap_or("?").to_string();
                return Some((
                    label.clone(),
                    format!(
                        "part `{}` differs between two processes running the same input.\n--- process 0:\n{}\n--- process {}:\n{}",
                        label,
                        truncate(x[2].as_str().unwrap_or(""), 1800),
                        k,
                        truncate(y[2].as_str().unwrap_or(""), 1800)
                    ),
                ));
            }
        }
    }
    None
}

fn sig_for(label: &str, kind: &str) -> String {
    // the part identifies where the order leaks out; the kind of input is not part of the root cause
    let _ = kind;
    format!("C22|differs|{}", label)
}

/// Replay of one input (zero-case stage `inputs`): 8 fresh processes must agree.
pub fn check_input(bytes: &[u8], ctx: &mut Ctx) -> Outcome {
    let d = gen_input(bytes);
    ctx.set_sample(format!("[{}]\n{}", d.kind, d.text));
    let exe = match std::env::current_exe() {
        Ok(p) => p.to_string_lossy().to_string(),
        Err(_) => return ctx.skip("no current_exe"),
    };
    match run_one_in_children(&exe, bytes, 8) {
        Err(_) => ctx.skip("child processes could not be run"),
        Ok(runs) => {
            ctx.nontrivial = runs[0].1["nt"].as_bool().unwrap_or(false);
            match first_difference(&runs) {
                Some((label, detail)) => Outcome::fail(sig_for(&label, d.kind), detail),
                None => Outcome::Pass,
            }
        }
    }
}

// ------------------------------------------------------------------------------------------------
// Parent

fn custom(cfg: &RunCfg) -> CustomReport {
    let mut rep = CustomReport::new();
    let (count, procs): (u64, usize) = if cfg.tier == Tier::Quick { (16_000, 4) } else { (60_000, 16) };
    let count = std::env::var("VERIF_C22_COUNT").ok().and_then(|s| s.parse().ok()).unwrap_or(count);
    // every process regenerates the whole workload; a process is split into `slices` children so that
    // the machine is used, and every (process, slice) child is a fresh process with fresh keys
    let jobs: usize = std::env::var("VERIF_JOBS").ok().and_then(|s| s.parse().ok()).unwrap_or(16);
    let slices = (jobs / procs).max(1) as u64;
    let per = count.div_ceil(slices);
    let mut tasks = vec![];
    for p in 0..procs {
        for s in 0..slices {
            let (a, b) = (s * per, ((s + 1) * per).min(count));
            if a < b {
                tasks.push((p, a, b));
            }
        }
    }
    let exe = cfg.exe.clone();
    let seed = cfg.seed;
    let handles: Vec<_> = tasks
        .iter()
        .map(|&(p, a, b)| {
            let exe = exe.clone();
            std::thread::spawn(move || {
                let r = child(&exe, &["--mode".into(), "run".into(), "--seed".into(), seed.to_string(), "--start".into(), a.to_string(), "--end".into(), b.to_string()]);
                (p, a, b, r)
            })
        })
        .collect();
    // per input: per process the line
    let mut table: BTreeMap<u64, BTreeMap<usize, Value>> = BTreeMap::new();
    let mut fingerprints: Vec<String> = vec![];
    for h in handles {
        let Ok((p, a, b, r)) = h.join() else {
            rep.inconclusive = Some("a collector thread panicked".into());
            continue;
        };
        match r {
            Err(e) => rep.inconclusive = Some(format!("child process could not be run: {}", e)),
            Ok((code, text)) => {
                let mut done = false;
                for line in text.lines() {
                    let Ok(v) = serde_json::from_str::<Value>(line) else { continue };
                    if let Some(f) = v["fingerprint"].as_str() {
                        fingerprints.push(f.to_string());
                    } else if v["done"] == true {
                        done = true;
                    } else if let Some(i) = v["i"].as_u64() {
                        table.entry(i).or_default().insert(p, v);
                    }
                }
                if !done {
                    // the child died (stack overflow / abort) on some input: not a determinism verdict
                    rep.inconclusive = Some(format!("child for inputs {}..{} ended early (status {:?}); its remaining inputs are not compared", a, b, code));
                }
            }
        }
    }
    fingerprints.sort();
    fingerprints.dedup();
    rep.notes.push(format!("{} child processes, {} distinct hasher fingerprints", tasks.len(), fingerprints.len()));
    if fingerprints.len() < 2 {
        rep.inconclusive = Some("all child processes report the same hasher fingerprint: hash keys are not per-process random, the check has no power".into());
    }
    let mut reported = 0;
    for (i, per_proc) in &table {
        let mut it = per_proc.iter();
        let Some((_, first)) = it.next() else { continue };
        rep.evaluations += 1;
        let kind = first["kind"].as_str().unwrap_or("?").to_string();
        *rep.classes.entry(kind.clone()).or_insert(0) += 1;
        if first["nt"] == true && per_proc.len() >= 2 {
            if let Some(k) = first["key"].as_str().and_then(|s| u64::from_str_radix(s, 16).ok()) {
                rep.nontrivial_keys.insert(k);
            }
            if rep.samples.len() < 6 && rep.samples.iter().all(|s| s["class"] != kind.as_str()) {
                let bytes = gen_case(cfg.seed, "C22", 0, *i, MAX_LEN);
                let inp = gen_input(&bytes);
                rep.samples.push(json!({"stage": "custom", "index": i, "class": kind, "diagnostics": first["diags"], "case": truncate(&inp.text, 600)}));
            }
        }
        let differs = it.any(|(_, v)| v["parts"] != first["parts"]);
        if differs && reported < 4 {
            reported += 1;
            // fetch the texts: run this input alone in fresh processes until two of them differ
            let bytes = gen_case(cfg.seed, "C22", 0, *i, MAX_LEN);
            let inp = gen_input(&bytes);
            let rendered = format!("[{}] workload input {}\n{}", inp.kind, i, match &inp.against {
                Some(s) => format!("# schema:\n{}\n# document:\n{}", s, inp.text),
                None => inp.text.clone(),
            });
            let (label, detail) = match run_one_in_children(&cfg.exe, &bytes, 10).ok().and_then(|runs| first_difference(&runs)) {
                Some(x) => x,
                None => {
                    // did not differ again in 10 processes: report the digests seen in the workload run
                    let mut label = "unknown".to_string();
                    let a = first["parts"].as_array().cloned().unwrap_or_default();
                    for (_, v) in per_proc.iter() {
                        if let Some(b) = v["parts"].as_array() {
                            for (x, y) in a.iter().zip(b.iter()) {
                                if x != y {
                                    label = x[0].as_str().unwrap_or("?").to_string();
                                }
                            }
                        }
                    }
                    (label, "digests differed between the workload processes, but 10 further processes agreed (texts unavailable)".to_string())
                }
            };
            let f = Failure { stage: "inputs".into(), index: *i, bytes: Some(bytes), sig: sig_for(&label, inp.kind), detail, rendered, shrunk: false };
            rep.failures.push(f);
        }
    }
    rep.notes.push(format!("{} inputs x {} processes", rep.evaluations, procs));
    rep
}
