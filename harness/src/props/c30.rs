//! C30 Names and nodes are memory-safe shared values.
//!
//! Model-based stateful test. An operation history (decoded from the choice stream) is run by an
//! interpreter over a pool of 8 name slots, 8 shared-string slots and 8 node slots. Beside the real
//! values the interpreter keeps a plain model: `(text, location, static/heap)` per name slot, the
//! allocation every node slot points to, and - for every reference-counted string a heap name can
//! be backed by - the number of live names and live `Arc<str>` handles that must share it. The
//! harness holds one extra handle on every such string (the canary), so an unbalanced clone or drop
//! inside `Name` is visible in `Arc::strong_count(canary)` one step later and *before* the memory
//! would be freed. After every step everything is read back and compared with the model.
use crate::choices::Choices;
use crate::runner::{Ctx, CustomReport, Failure, Outcome, Prop, RunCfg, Tier};
use apollo_compiler::parser::{verif_hooks, SourceSpan};
use apollo_compiler::schema::{Component, ComponentName, ComponentOrigin};
use apollo_compiler::{name, Name, Node};
use std::collections::BTreeMap;
use std::fmt::Write as _;
use std::hash::{Hash, Hasher};
use std::sync::{Arc, Barrier, Mutex, OnceLock};

// ------------------------------------------------------------------------------------------------
// Allocation accounting: a thread-local counting wrapper around the system allocator. It is the
// global allocator of every binary that links this crate; the cost is two thread-local additions
// per allocation. C30 uses it to require that a single-threaded history leaves no live allocation
// behind on its thread.

pub mod alloc_count {
    use std::alloc::{GlobalAlloc, Layout, System};
    use std::cell::Cell;

    pub struct Counting;

    thread_local! {
        static BLOCKS: Cell<i64> = const { Cell::new(0) };
        static BYTES: Cell<i64> = const { Cell::new(0) };
    }

    #[inline]
    fn bump(blocks: i64, bytes: i64) {
        let _ = BLOCKS.try_with(|c| c.set(c.get().wrapping_add(blocks)));
        let _ = BYTES.try_with(|c| c.set(c.get().wrapping_add(bytes)));
    }

    unsafe impl GlobalAlloc for Counting {
        unsafe fn alloc(&self, l: Layout) -> *mut u8 {
            let p = System.alloc(l);
            if !p.is_null() {
                bump(1, l.size() as i64);
            }
            p
        }
        unsafe fn alloc_zeroed(&self, l: Layout) -> *mut u8 {
            let p = System.alloc_zeroed(l);
            if !p.is_null() {
                bump(1, l.size() as i64);
            }
            p
        }
        unsafe fn dealloc(&self, p: *mut u8, l: Layout) {
            System.dealloc(p, l);
            bump(-1, -(l.size() as i64));
        }
        unsafe fn realloc(&self, p: *mut u8, l: Layout, new_size: usize) -> *mut u8 {
            let q = System.realloc(p, l, new_size);
            if !q.is_null() {
                bump(0, new_size as i64 - l.size() as i64);
            }
            q
        }
    }

    /// (live blocks, live bytes) allocated minus freed *by the calling thread* so far.
    pub fn snapshot() -> (i64, i64) {
        (BLOCKS.with(|c| c.get()), BYTES.with(|c| c.get()))
    }
}

#[global_allocator]
static GLOBAL: alloc_count::Counting = alloc_count::Counting;

// ------------------------------------------------------------------------------------------------

pub fn prop() -> Prop {
    Prop::new(
        "C30",
        "Names and nodes are memory-safe shared values",
        "Cases: operation histories of 1-60 operations over 8 name slots, 8 Arc<str> slots and 8 node slots \
         (Name::new / try_from(&str | &String | String) / new_static / name! / TryFrom<Arc<str>> / from_arc_unchecked, \
         constructors given non-names, clone, From<&Name>, drop, with_location, to_cloned_arc, as_static_str, \
         Into<Arc<str>>, to_component, serde round trip, eq/hash/ord/Borrow/str-comparison/formatting probes; \
         Node::new / new_parsed / new_str / new_str_parsed, clone, drop, make_mut + mutate, get_mut, ptr_eq, \
         same_location, to_component, Borrow/eq/hash probes, String conversions), decoded from a proptest byte \
         vector. Stage `threaded`: a sequential prefix builds the pool, then 2-4 real threads run their own \
         histories (repeated 1-40 times) whose operands are clones of the shared slots, optionally handing their \
         copies of shared values over to the main thread to be dropped there, then a sequential suffix. Oracle: \
         a plain model of every slot plus the expected strong count of every backing Arc<str> (the harness holds a \
         canary handle on each) and of a tracker Arc inside every node payload, compared after every step; at the \
         end everything is dropped, counts return to 1 and the thread's allocation counter shows no live block. \
         Thorough tier: the same interpreter under Miri (use-after-free, double free, data races). Non-trivial: \
         the history clones a heap name, drops one of the copies and reads a surviving copy back; distinct by the \
         executed trace.",
    )
    .random(
        "histories",
        check_history,
        |t| if t == Tier::Quick { 60_000 } else { 1_200_000 },
        |_| 320,
    )
    .random(
        "threaded",
        check_threaded,
        |t| if t == Tier::Quick { 6_000 } else { 120_000 },
        |_| 420,
    )
    // zero-case stages: only used to replay a failure found by the Miri stage (`--replay`)
    .random("miri-histories", check_miri_history, |_| 0, |_| 320)
    .random("miri-threaded", check_miri_threaded, |_| 0, |_| 420)
    .custom(custom)
    // shrinking a threaded case spawns threads for every candidate
    .case_timeout(200)
    .assumptions(&[
        "with_location is only given spans whose length equals the name's length (the method debug-asserts it); spans come from real parses of a document containing the pool texts",
        "after make_mut had to copy a shared node, the copy's location may be the original's or None (the source carries a TODO about this); values of all other handles must be unchanged",
        "ordering probes only require Ord to be consistent with Eq and antisymmetric",
        "leaks are measured by canary strong counts (all histories) and by a thread-local allocation counter (single-threaded histories; a non-zero delta must repeat on a second run of the same history to count)",
        "real threads explore whatever the OS schedules; data races are only detectable in the Miri stage (thorough tier)",
    ])
}

const NSLOTS: usize = 8;
const OCCS: usize = 3;

/// Valid GraphQL names used as name texts; the location documents contain each OCCS times.
pub const POOL: [&str; 10] = [
    "a",
    "b",
    "id",
    "Query",
    "_x1",
    "name",
    "TypeName0",
    LONG,
    // two prefixes of LONG that start at the same address: static names are compared by text, never by
    // the address of their first byte alone
    prefix(LONG, 11),
    prefix(LONG, 6),
];
const LONG: &str = "a_long_name_0123456789_abcdefghijklmnopqrstuvwxyz_ABCDEFGHIJKLMNOPQRSTUVWXYZ";
const fn prefix(s: &'static str, n: usize) -> &'static str {
    assert!(n <= s.len());
    // SAFETY: LONG is ASCII, so every prefix is valid UTF-8 and lies inside the same static
    unsafe { std::str::from_utf8_unchecked(std::slice::from_raw_parts(s.as_ptr(), n)) }
}
/// Texts that are not names: only through `from_arc_unchecked` / `new_unchecked` (documented as
/// memory-safe) and as `Node<str>` contents.
const ODD: [&str; 6] = ["", "1", "a b", "é", "\u{10FFFF}x", "a\0b"];

/// File ids the location documents are parsed under (preset through the hook): small, 32-bit
/// boundary, alternating bit patterns, and the largest 63-bit values (tag-bit neighbours).
const FILE_IDS: [u64; 8] = [
    1000,
    3,
    0xFFFF_FFFF,
    0x1_0000_0000,
    0x2AAA_AAAA_AAAA_AAAA,
    0x5555_5555_5555_5555,
    0x7FFF_FFFF_FFFF_FFFE,
    0x7FFF_FFFF_FFFF_FFFF,
];

// ------------------------------------------------------------------------------------------------
// Location source

pub struct LocFile {
    pub id: u64,
    /// name_spans[pool index][occurrence] = (span, start offset by construction)
    name_spans: Vec<Vec<(SourceSpan, u32)>>,
    /// all name spans in document order: (span, start, end)
    flat: Vec<(SourceSpan, u32, u32)>,
}

fn build_locfile(id: u64) -> Result<LocFile, String> {
    let mut text = String::from("{");
    let mut expect: Vec<(usize, u32)> = vec![];
    for _ in 0..OCCS {
        for (ti, t) in POOL.iter().enumerate() {
            text.push(' ');
            expect.push((ti, text.len() as u32));
            text.push_str(t);
        }
    }
    text.push_str(" }");
    let saved = verif_hooks::peek_next_file_id();
    verif_hooks::preset_next_file_id(id);
    let parsed = apollo_compiler::ast::Document::parse(text.clone(), "c30-locations.graphql");
    let restore = if (3..(1u64 << 62)).contains(&saved) { saved } else { 1_000_000 };
    verif_hooks::preset_next_file_id(restore.max(1001));
    let doc = parsed.map_err(|e| format!("location document does not parse: {}", e.errors))?;
    let Some(apollo_compiler::ast::Definition::OperationDefinition(op)) = doc.definitions.first() else {
        return Err("location document has no operation".into());
    };
    let mut name_spans: Vec<Vec<(SourceSpan, u32)>> = vec![vec![]; POOL.len()];
    let mut flat = vec![];
    if op.selection_set.len() != expect.len() {
        return Err(format!("location document has {} selections, expected {}", op.selection_set.len(), expect.len()));
    }
    for (sel, (ti, start)) in op.selection_set.iter().zip(expect.iter()) {
        let apollo_compiler::ast::Selection::Field(f) = sel else {
            return Err("selection is not a field".into());
        };
        let Some(span) = f.name.location() else {
            return Err(format!("parsed name {:?} has no location", f.name.as_str()));
        };
        let got = (verif_hooks::file_id_value(span.file_id()), span.offset(), span.end_offset(), f.name.as_str());
        let want = (id, *start as usize, *start as usize + POOL[*ti].len(), POOL[*ti]);
        if got != want {
            return Err(format!("parsed name has (file id, start, end, text) = {:?}, expected {:?}", got, want));
        }
        name_spans[*ti].push((span, *start));
        flat.push((span, *start, *start + POOL[*ti].len() as u32));
    }
    Ok(LocFile { id, name_spans, flat })
}

/// `c30_miri --no-locations`: no document is parsed (rowan, which apollo-parser builds its trees with, is
/// rejected by Miri's aliasing models); operations that need a source span become no-ops.
static NO_LOCATIONS: std::sync::atomic::AtomicBool = std::sync::atomic::AtomicBool::new(false);

/// Location documents are parsed once per process and file id.
fn locfile(idx: usize) -> Result<Arc<LocFile>, String> {
    if NO_LOCATIONS.load(std::sync::atomic::Ordering::Relaxed) {
        return Ok(Arc::new(LocFile { id: FILE_IDS[idx], name_spans: vec![vec![]; POOL.len()], flat: vec![] }));
    }
    static CACHE: OnceLock<Mutex<BTreeMap<usize, Arc<LocFile>>>> = OnceLock::new();
    let m = CACHE.get_or_init(|| Mutex::new(BTreeMap::new()));
    let mut g = m.lock().unwrap_or_else(|e| e.into_inner());
    if let Some(f) = g.get(&idx) {
        return Ok(f.clone());
    }
    let f = Arc::new(build_locfile(FILE_IDS[idx])?);
    g.insert(idx, f.clone());
    Ok(f)
}

// ------------------------------------------------------------------------------------------------
// Node payload

#[derive(Clone)]
pub struct Payload {
    n: u64,
    name: Option<Name>,
    /// one clone per live payload allocation; the harness keeps the original
    #[allow(dead_code)]
    tracker: Arc<()>,
}

impl PartialEq for Payload {
    fn eq(&self, o: &Self) -> bool {
        self.n == o.n && self.name == o.name
    }
}
impl Eq for Payload {}
impl Hash for Payload {
    fn hash<H: Hasher>(&self, h: &mut H) {
        self.n.hash(h);
        self.name.hash(h);
    }
}

enum NodeV {
    P(Node<Payload>),
    S(Node<str>),
}

impl NodeV {
    fn clone_v(&self) -> NodeV {
        match self {
            NodeV::P(n) => NodeV::P(n.clone()),
            NodeV::S(n) => NodeV::S(n.clone()),
        }
    }
    fn location(&self) -> Option<SourceSpan> {
        match self {
            NodeV::P(n) => n.location(),
            NodeV::S(n) => n.location(),
        }
    }
}

// ------------------------------------------------------------------------------------------------
// Model

#[derive(Clone, Debug, PartialEq, Eq)]
struct Loc {
    id: u64,
    start: u32,
    end: u32,
}

fn loc_of(span: Option<SourceSpan>) -> Option<Loc> {
    span.map(|s| Loc { id: verif_hooks::file_id_value(s.file_id()), start: s.offset() as u32, end: s.end_offset() as u32 })
}

#[derive(Clone, Copy, Debug, PartialEq, Eq)]
enum CanRef {
    /// index into this state's canary table
    Own(usize),
    /// index into the parent (shared) state's table: counts fluctuate while threads run, not checked here
    Parent(usize),
}

#[derive(Clone, Copy, Debug, PartialEq, Eq)]
enum Stat {
    Pool(usize),
    Macro,
}

#[derive(Clone, Debug)]
struct NameM {
    text: String,
    loc: Option<Loc>,
    stat: Option<Stat>,
    canary: Option<CanRef>,
}

struct Canary {
    arc: Arc<str>,
    names: usize,
    arcs: usize,
    cloned: bool,
}

#[derive(Clone, Debug, PartialEq, Eq)]
enum Val {
    P(u64),
    S(String),
}

struct AllocM {
    val: Val,
    name: Option<NameM>,
    loc: Option<Loc>,
    /// handles in THIS state's slots
    refs: usize,
    /// further handles exist outside this state (the shared pool): never unique
    ext: bool,
    tracker: Option<usize>,
}

type Fail = (String, String);

fn fail<T>(sig: impl Into<String>, detail: impl Into<String>) -> Result<T, Fail> {
    Err((sig.into(), detail.into()))
}

// ------------------------------------------------------------------------------------------------
// Operations

#[derive(Clone, Debug)]
pub enum Op {
    NewStr { dst: u8, text: u8, via: u8 },
    NewStatic { dst: u8, idx: u8, mac: bool },
    FromArc { dst: u8, sel: u8, fresh: bool, text: u8, how: u8 },
    CloneName { sel: u8, dst: u8, via_from: bool },
    DropName { sel: u8 },
    WithLoc { sel: u8, file: bool, occ: u8 },
    ToArc { sel: u8, adst: u8 },
    AsStatic { sel: u8 },
    IntoArc { sel: u8, adst: u8 },
    DropArc { sel: u8 },
    ProbeNames { a: u8, b: u8 },
    NodeNew { dst: u8, n: u8, name_sel: Option<u8>, loc: Option<(bool, u8, u8)> },
    NodeNewStr { dst: u8, text: u8, loc: Option<(bool, u8, u8)> },
    NodeClone { sel: u8, dst: u8 },
    NodeDrop { sel: u8 },
    MakeMut { sel: u8, n: u8 },
    GetMut { sel: u8, n: u8 },
    PtrEq { a: u8, b: u8 },
    SameLoc { sel: u8, dst: u8, n: u8 },
    ProbeNodes { a: u8, b: u8 },
    /// further read-only / temporary-clone API of a name: 0 to_component, 1 serde round trip,
    /// 2 Borrow/AsRef/Deref + hash agreement, 3 Display/Debug, 4 comparisons with str, 5 From<&Name>/len
    NameMisc { sel: u8, which: u8 },
    /// 0 to_component / From<Node>, 1 Borrow/AsRef hash agreement, 2 Debug/Display, 3 String::from(Node<str>)
    NodeMisc { sel: u8, which: u8 },
    /// constructors given a text that is not a GraphQL name: must fail and keep nothing alive
    BadName { text: u8, how: u8 },
    // only meaningful in a thread-local state (operands in the shared parent state)
    CloneSharedName { sel: u8, dst: u8 },
    CloneSharedNode { sel: u8, dst: u8 },
    ReadShared { sel: u8 },
}

impl Op {
    fn kind(&self) -> &'static str {
        match self {
            Op::NewStr { .. } => "new",
            Op::NewStatic { .. } => "new_static",
            Op::FromArc { .. } => "from_arc",
            Op::CloneName { .. } => "clone",
            Op::DropName { .. } => "drop",
            Op::WithLoc { .. } => "with_location",
            Op::ToArc { .. } => "to_cloned_arc",
            Op::AsStatic { .. } => "as_static_str",
            Op::IntoArc { .. } => "into_arc",
            Op::DropArc { .. } => "drop_arc",
            Op::ProbeNames { .. } => "probe_names",
            Op::NodeNew { .. } => "node_new",
            Op::NodeNewStr { .. } => "node_new_str",
            Op::NodeClone { .. } => "node_clone",
            Op::NodeDrop { .. } => "node_drop",
            Op::MakeMut { .. } => "make_mut",
            Op::GetMut { .. } => "get_mut",
            Op::PtrEq { .. } => "ptr_eq",
            Op::SameLoc { .. } => "same_location",
            Op::ProbeNodes { .. } => "probe_nodes",
            Op::NameMisc { .. } => "name_misc",
            Op::NodeMisc { .. } => "node_misc",
            Op::BadName { .. } => "bad_name",
            Op::CloneSharedName { .. } => "clone_shared_name",
            Op::CloneSharedNode { .. } => "clone_shared_node",
            Op::ReadShared { .. } => "read_shared",
        }
    }
}

fn decode_loc(c: &mut Choices) -> Option<(bool, u8, u8)> {
    if c.coin() {
        Some((c.coin(), c.byte(), c.byte()))
    } else {
        None
    }
}

/// Total decoder; the all-zero stream gives `Name::new(POOL[0])` into slot 0.
pub fn decode_op(c: &mut Choices) -> Op {
    match c.weighted(&[10, 6, 10, 16, 11, 8, 6, 3, 5, 4, 6, 8, 4, 8, 6, 8, 4, 3, 3, 3, 7, 4, 3]) {
        0 => Op::NewStr { dst: c.byte(), text: c.byte(), via: c.byte() },
        1 => Op::NewStatic { dst: c.byte(), idx: c.byte(), mac: c.bool(64) },
        2 => Op::FromArc { dst: c.byte(), sel: c.byte(), fresh: c.bool(100), text: c.byte(), how: c.byte() },
        3 => Op::CloneName { sel: c.byte(), dst: c.byte(), via_from: c.bool(64) },
        4 => Op::DropName { sel: c.byte() },
        5 => Op::WithLoc { sel: c.byte(), file: c.coin(), occ: c.byte() },
        6 => Op::ToArc { sel: c.byte(), adst: c.byte() },
        7 => Op::AsStatic { sel: c.byte() },
        8 => Op::IntoArc { sel: c.byte(), adst: c.byte() },
        9 => Op::DropArc { sel: c.byte() },
        10 => Op::ProbeNames { a: c.byte(), b: c.byte() },
        11 => Op::NodeNew { dst: c.byte(), n: c.byte(), name_sel: if c.coin() { Some(c.byte()) } else { None }, loc: decode_loc(c) },
        12 => Op::NodeNewStr { dst: c.byte(), text: c.byte(), loc: decode_loc(c) },
        13 => Op::NodeClone { sel: c.byte(), dst: c.byte() },
        14 => Op::NodeDrop { sel: c.byte() },
        15 => Op::MakeMut { sel: c.byte(), n: c.byte() },
        16 => Op::GetMut { sel: c.byte(), n: c.byte() },
        17 => Op::PtrEq { a: c.byte(), b: c.byte() },
        18 => Op::SameLoc { sel: c.byte(), dst: c.byte(), n: c.byte() },
        19 => Op::ProbeNodes { a: c.byte(), b: c.byte() },
        20 => Op::NameMisc { sel: c.byte(), which: c.byte() },
        21 => Op::NodeMisc { sel: c.byte(), which: c.byte() },
        _ => Op::BadName { text: c.byte(), how: c.byte() },
    }
}

/// Operation of a worker thread: mostly clones of / reads from the shared pool, otherwise any operation
/// on the thread's own slots.
fn decode_thread_op(c: &mut Choices) -> Op {
    match c.weighted(&[30, 18, 8, 44]) {
        0 => Op::CloneSharedName { sel: c.byte(), dst: c.byte() },
        1 => Op::CloneSharedNode { sel: c.byte(), dst: c.byte() },
        2 => Op::ReadShared { sel: c.byte() },
        _ => decode_op(c),
    }
}

#[inline]
fn idx(b: u8, n: usize) -> usize {
    (b as usize * n) >> 8
}

/// GraphQL Name syntax (October 2021, 2.1.9), written from the grammar: /[_A-Za-z][_0-9A-Za-z]*/
fn refmodel_is_name(s: &str) -> bool {
    let mut it = s.bytes();
    match it.next() {
        Some(b) if b == b'_' || b.is_ascii_alphabetic() => {}
        _ => return false,
    }
    it.all(|b| b == b'_' || b.is_ascii_alphanumeric())
}

fn hash_of<T: Hash + ?Sized>(t: &T) -> u64 {
    let mut h = std::collections::hash_map::DefaultHasher::new();
    t.hash(&mut h);
    h.finish()
}

// ------------------------------------------------------------------------------------------------
// Interpreter state

pub struct State<'p> {
    files: [Arc<LocFile>; 2],
    parent: Option<&'p State<'p>>,
    tag: String,
    names: Vec<Option<(Name, NameM)>>,
    arcs: Vec<Option<(Arc<str>, Option<CanRef>, String)>>,
    nodes: Vec<Option<(NodeV, usize)>>,
    allocs: Vec<AllocM>,
    /// thread-local state: shared (parent) allocation index -> local model entry of its clones
    ext_map: BTreeMap<usize, usize>,
    canaries: Vec<Canary>,
    /// (tracker, number of live payload allocations of this state holding a clone)
    trackers: Vec<(Arc<()>, usize)>,
    pub nontrivial: bool,
    pub steps: usize,
    pub effective: usize,
    pub moved_unique: usize,
    /// kinds of operation that took effect at least once (histogram)
    pub kinds: std::collections::BTreeSet<&'static str>,
    pub trace: Option<String>,
    last_kind: &'static str,
}

impl<'p> State<'p> {
    fn new(files: [Arc<LocFile>; 2], parent: Option<&'p State<'p>>, tag: &str, trace: bool) -> State<'p> {
        State {
            files,
            parent,
            tag: tag.to_string(),
            names: (0..NSLOTS).map(|_| None).collect(),
            arcs: (0..NSLOTS).map(|_| None).collect(),
            nodes: (0..NSLOTS).map(|_| None).collect(),
            allocs: vec![],
            ext_map: BTreeMap::new(),
            canaries: vec![],
            trackers: vec![],
            nontrivial: false,
            steps: 0,
            effective: 0,
            moved_unique: 0,
            kinds: Default::default(),
            trace: if trace { Some(String::new()) } else { None },
            last_kind: "start",
        }
    }

    fn log(&mut self, f: impl FnOnce() -> String) {
        if self.trace.is_some() {
            let line = f();
            let tag = self.tag.clone();
            let t = self.trace.as_mut().unwrap();
            let _ = writeln!(t, "{}{}", tag, line);
        }
    }

    fn live<T>(v: &[Option<T>]) -> Vec<usize> {
        v.iter().enumerate().filter(|(_, x)| x.is_some()).map(|(i, _)| i).collect()
    }

    /// Resolve a selector byte to a live slot.
    fn pick<T>(v: &[Option<T>], sel: u8) -> Option<usize> {
        let l = Self::live(v);
        if l.is_empty() {
            None
        } else {
            Some(l[idx(sel, l.len())])
        }
    }

    fn canary_arc(&self, r: CanRef) -> &Arc<str> {
        match r {
            CanRef::Own(i) => &self.canaries[i].arc,
            CanRef::Parent(i) => &self.parent.expect("parent canary without parent").canaries[i].arc,
        }
    }

    fn names_delta(&mut self, r: Option<CanRef>, d: isize) {
        if let Some(CanRef::Own(i)) = r {
            let c = &mut self.canaries[i];
            c.names = (c.names as isize + d) as usize;
        }
    }

    fn arcs_delta(&mut self, r: Option<CanRef>, d: isize) {
        if let Some(CanRef::Own(i)) = r {
            let c = &mut self.canaries[i];
            c.arcs = (c.arcs as isize + d) as usize;
        }
    }

    fn drop_name_slot(&mut self, slot: usize) {
        if let Some((n, m)) = self.names[slot].take() {
            drop(n);
            self.names_delta(m.canary, -1);
            match m.canary {
                Some(CanRef::Own(i)) => {
                    let c = &self.canaries[i];
                    if c.cloned && c.names >= 1 {
                        // a copy survives and is read back by the verification after this step
                        self.nontrivial = true;
                    }
                }
                // a clone of a shared heap name is dropped; the shared original is read back after the join
                Some(CanRef::Parent(_)) => self.nontrivial = true,
                None => {}
            }
        }
    }

    fn drop_arc_slot(&mut self, slot: usize) {
        if let Some((a, r, _)) = self.arcs[slot].take() {
            drop(a);
            self.arcs_delta(r, -1);
        }
    }

    fn release_alloc(&mut self, ai: usize) {
        let a = &mut self.allocs[ai];
        a.refs -= 1;
        if a.refs == 0 && !a.ext {
            // the payload allocation is freed now: its tracker clone and embedded name go away
            let tracker = a.tracker;
            let name_can = a.name.as_ref().and_then(|n| n.canary);
            if let Some(t) = tracker {
                self.trackers[t].1 -= 1;
            }
            self.names_delta(name_can, -1);
        }
    }

    fn drop_node_slot(&mut self, slot: usize) {
        if let Some((n, ai)) = self.nodes[slot].take() {
            drop(n);
            self.release_alloc(ai);
        }
    }

    fn span_for(&self, loc: (bool, u8, u8)) -> Option<(SourceSpan, Loc)> {
        let f = &self.files[loc.0 as usize];
        let n = f.flat.len();
        if n == 0 {
            return None;
        }
        let (mut i, mut j) = (idx(loc.1, n), idx(loc.2, n));
        if i > j {
            std::mem::swap(&mut i, &mut j);
        }
        let span = SourceSpan::recompose(Some(f.flat[i].0), Some(f.flat[j].0)).expect("two spans");
        Some((span, Loc { id: f.id, start: f.flat[i].1, end: f.flat[j].2 }))
    }

    // --------------------------------------------------------------------------------------------

    pub fn step(&mut self, op: &Op) -> Result<(), Fail> {
        self.steps += 1;
        self.last_kind = op.kind();
        let before = self.effective;
        let r = self.apply(op);
        if self.effective > before {
            self.kinds.insert(op.kind());
        }
        if let Err((sig, detail)) = r {
            return Err((sig, format!("{} (step {} of {})", detail, self.steps, self.tag_or_main())));
        }
        self.verify()
    }

    fn tag_or_main(&self) -> &str {
        if self.tag.is_empty() {
            "main"
        } else {
            self.tag.trim()
        }
    }

    fn apply(&mut self, op: &Op) -> Result<(), Fail> {
        match *op {
            Op::NewStr { dst, text, via } => {
                let dst = idx(dst, NSLOTS);
                let text = POOL[idx(text, POOL.len())];
                self.drop_name_slot(dst);
                let owned = String::from(text);
                // the borrowed string is gone before the name is first read
                let r = match idx(via, 5) {
                    0 | 1 => Name::new(&owned),
                    2 => Name::try_from(owned.as_str()),
                    3 => Name::try_from(&owned),
                    _ => Name::try_from(owned.clone()),
                };
                drop(owned);
                let n = match r {
                    Ok(n) => n,
                    Err(e) => return fail("C30|new|rejects-valid-name", format!("Name::new({:?}) = Err({})", text, e)),
                };
                let Some(arc) = n.to_cloned_arc() else {
                    return fail("C30|new|not-heap", format!("Name::new({:?}).to_cloned_arc() is None", text));
                };
                self.canaries.push(Canary { arc, names: 1, arcs: 0, cloned: false });
                let ci = self.canaries.len() - 1;
                self.log(|| format!("n{} = Name::new({:?})   [string s{}]", dst, text, ci));
                self.names[dst] = Some((n, NameM { text: text.into(), loc: None, stat: None, canary: Some(CanRef::Own(ci)) }));
                self.effective += 1;
            }
            Op::NewStatic { dst, idx: ti, mac } => {
                let dst = idx(dst, NSLOTS);
                let ti = idx(ti, POOL.len());
                self.drop_name_slot(dst);
                let (n, stat, text) = if mac {
                    match ti & 3 {
                        0 => (name!("a"), Stat::Macro, "a"),
                        1 => (name!(id), Stat::Macro, "id"),
                        2 => (name!("Query"), Stat::Macro, "Query"),
                        _ => (name!(TypeName0), Stat::Macro, "TypeName0"),
                    }
                } else {
                    match Name::new_static(POOL[ti]) {
                        Ok(n) => (n, Stat::Pool(ti), POOL[ti]),
                        Err(e) => return fail("C30|new_static|rejects-valid-name", format!("Name::new_static({:?}) = Err({})", POOL[ti], e)),
                    }
                };
                self.log(|| format!("n{} = {}({:?})", dst, if mac { "name!" } else { "Name::new_static" }, text));
                self.names[dst] = Some((n, NameM { text: text.into(), loc: None, stat: Some(stat), canary: None }));
                self.effective += 1;
            }
            Op::FromArc { dst, sel, fresh, text, how } => {
                let dst = idx(dst, NSLOTS);
                let how = idx(how, 3);
                self.drop_name_slot(dst);
                let ci = if fresh || self.canaries.is_empty() {
                    let t = if how == 2 { ODD[idx(text, ODD.len())] } else { POOL[idx(text, POOL.len())] };
                    self.canaries.push(Canary { arc: Arc::from(t), names: 0, arcs: 0, cloned: false });
                    self.canaries.len() - 1
                } else {
                    idx(sel, self.canaries.len())
                };
                let handle = self.canaries[ci].arc.clone();
                let text = handle.to_string();
                let valid = Name::is_valid_syntax(&text);
                let n = if how == 0 && valid {
                    match Name::try_from(handle) {
                        Ok(n) => n,
                        Err(e) => return fail("C30|try_from_arc|rejects-valid-name", format!("Name::try_from(Arc {:?}) = Err({})", text, e)),
                    }
                } else {
                    Name::from_arc_unchecked(handle)
                };
                self.canaries[ci].names += 1;
                self.log(|| format!("n{} = Name::{}(s{}.clone() = {:?})", dst, if how == 0 && valid { "try_from" } else { "from_arc_unchecked" }, ci, text));
                self.names[dst] = Some((n, NameM { text, loc: None, stat: None, canary: Some(CanRef::Own(ci)) }));
                self.effective += 1;
            }
            Op::CloneName { sel, dst, via_from } => {
                let dst = idx(dst, NSLOTS);
                let Some(src) = Self::pick(&self.names, sel) else { return Ok(()) };
                let (n, m) = self.names[src].as_ref().unwrap();
                let c = if via_from { Name::from(n) } else { n.clone() };
                let m = m.clone();
                self.names_delta(m.canary, 1);
                if let Some(CanRef::Own(i)) = m.canary {
                    self.canaries[i].cloned = true;
                }
                self.drop_name_slot(dst);
                self.log(|| format!("n{} = n{}.clone()", dst, src));
                self.names[dst] = Some((c, m));
                self.effective += 1;
            }
            Op::DropName { sel } => {
                let Some(s) = Self::pick(&self.names, sel) else { return Ok(()) };
                self.log(|| format!("drop(n{})", s));
                self.drop_name_slot(s);
                self.effective += 1;
            }
            Op::WithLoc { sel, file, occ } => {
                let Some(s) = Self::pick(&self.names, sel) else { return Ok(()) };
                let text = self.names[s].as_ref().unwrap().1.text.clone();
                let Some(ti) = POOL.iter().position(|t| *t == text) else { return Ok(()) };
                let f = self.files[file as usize].clone();
                if f.name_spans[ti].is_empty() {
                    return Ok(());
                }
                let (span, start) = f.name_spans[ti][idx(occ, OCCS)];
                let (n, mut m) = self.names[s].take().unwrap();
                let n = n.with_location(span);
                m.loc = Some(Loc { id: f.id, start, end: start + text.len() as u32 });
                self.log(|| format!("n{} = n{}.with_location({}..{} @{})", s, s, start, start as usize + text.len(), f.id));
                self.names[s] = Some((n, m));
                self.effective += 1;
            }
            Op::ToArc { sel, adst } => {
                let adst = idx(adst, NSLOTS);
                let Some(s) = Self::pick(&self.names, sel) else { return Ok(()) };
                let (n, m) = self.names[s].as_ref().unwrap();
                let got = n.to_cloned_arc();
                let m = m.clone();
                self.log(|| format!("a{} = n{}.to_cloned_arc()", adst, s));
                match (got, m.canary) {
                    (None, None) => {}
                    (Some(a), Some(r)) => {
                        if !Arc::ptr_eq(&a, self.canary_arc(r)) {
                            return fail("C30|to_cloned_arc|different-allocation", format!("to_cloned_arc of {:?} is not the Arc the name was created from", m.text));
                        }
                        self.arcs_delta(Some(r), 1);
                        self.drop_arc_slot(adst);
                        self.arcs[adst] = Some((a, Some(r), m.text.clone()));
                    }
                    (Some(_), None) => return fail("C30|to_cloned_arc|some-for-static", format!("static name {:?} returned an Arc", m.text)),
                    (None, Some(_)) => return fail("C30|to_cloned_arc|none-for-heap", format!("heap name {:?} returned no Arc", m.text)),
                }
                self.effective += 1;
            }
            Op::AsStatic { sel } => {
                let Some(s) = Self::pick(&self.names, sel) else { return Ok(()) };
                let (n, m) = self.names[s].as_ref().unwrap();
                let got = n.as_static_str();
                match (got, m.stat) {
                    (None, None) => {}
                    (Some(t), Some(st)) => {
                        if t != m.text {
                            return fail("C30|as_static_str|text", format!("as_static_str = {:?}, expected {:?}", t, m.text));
                        }
                        if let Stat::Pool(i) = st {
                            if t.as_ptr() != POOL[i].as_ptr() {
                                return fail("C30|as_static_str|pointer", format!("as_static_str of {:?} does not point at the string supplied", m.text));
                            }
                        }
                    }
                    (Some(_), None) => return fail("C30|as_static_str|some-for-heap", format!("heap name {:?} returned a static str", m.text)),
                    (None, Some(_)) => return fail("C30|as_static_str|none-for-static", format!("static name {:?} returned None", m.text)),
                }
                self.log(|| format!("n{}.as_static_str()", s));
                self.effective += 1;
            }
            Op::IntoArc { sel, adst } => {
                let adst = idx(adst, NSLOTS);
                let Some(s) = Self::pick(&self.names, sel) else { return Ok(()) };
                let (n, m) = self.names[s].take().unwrap();
                let a: Arc<str> = n.into();
                self.log(|| format!("a{} = Arc::<str>::from(n{})", adst, s));
                if &*a != m.text.as_str() {
                    return fail("C30|into_arc|text", format!("Arc::from(name) = {:?}, expected {:?}", &*a, m.text));
                }
                match m.canary {
                    Some(r) => {
                        if !Arc::ptr_eq(&a, self.canary_arc(r)) {
                            return fail("C30|into_arc|different-allocation", format!("Arc::from(heap name {:?}) is not the Arc it was created from", m.text));
                        }
                        self.names_delta(Some(r), -1);
                        self.arcs_delta(Some(r), 1);
                        self.drop_arc_slot(adst);
                        self.arcs[adst] = Some((a, Some(r), m.text.clone()));
                    }
                    None => {
                        if Arc::strong_count(&a) != 1 {
                            return fail("C30|into_arc|static-count", format!("Arc::from(static name) has strong count {}", Arc::strong_count(&a)));
                        }
                        self.drop_arc_slot(adst);
                        self.arcs[adst] = Some((a, None, m.text.clone()));
                    }
                }
                self.effective += 1;
            }
            Op::DropArc { sel } => {
                let Some(s) = Self::pick(&self.arcs, sel) else { return Ok(()) };
                self.log(|| format!("drop(a{})", s));
                self.drop_arc_slot(s);
                self.effective += 1;
            }
            Op::ProbeNames { a, b } => {
                let (Some(a), Some(b)) = (Self::pick(&self.names, a), Self::pick(&self.names, b)) else { return Ok(()) };
                let (na, ma) = self.names[a].as_ref().unwrap();
                let (nb, mb) = self.names[b].as_ref().unwrap();
                probe_names(na, ma, nb, mb)?;
                self.log(|| format!("probe eq/hash/ord n{} n{}", a, b));
                self.effective += 1;
            }
            Op::NodeNew { dst, n, name_sel, loc } => {
                let dst = idx(dst, NSLOTS);
                self.drop_node_slot(dst);
                let (pname, pm) = match name_sel.and_then(|s| Self::pick(&self.names, s)) {
                    Some(s) => {
                        let (nm, m) = self.names[s].as_ref().unwrap();
                        let (c, m) = (nm.clone(), m.clone());
                        self.names_delta(m.canary, 1);
                        if let Some(CanRef::Own(i)) = m.canary {
                            self.canaries[i].cloned = true;
                        }
                        (Some(c), Some(m))
                    }
                    None => (None, None),
                };
                let tracker = Arc::new(());
                let p = Payload { n: n as u64, name: pname, tracker: tracker.clone() };
                self.trackers.push((tracker, 1));
                let ti = self.trackers.len() - 1;
                let (node, l) = match loc.and_then(|l| self.span_for(l)) {
                    Some((span, l)) => (Node::new_parsed(p, span), Some(l)),
                    None => (Node::new(p), None),
                };
                self.log(|| format!("d{} = Node::{}(Payload {{ n: {}, name: {:?} }}{})", dst, if l.is_some() { "new_parsed" } else { "new" }, n, pm.as_ref().map(|m| m.text.clone()), fmt_loc(&l)));
                self.allocs.push(AllocM { val: Val::P(n as u64), name: pm, loc: l, refs: 1, ext: false, tracker: Some(ti) });
                self.nodes[dst] = Some((NodeV::P(node), self.allocs.len() - 1));
                self.effective += 1;
            }
            Op::NodeNewStr { dst, text, loc } => {
                let dst = idx(dst, NSLOTS);
                self.drop_node_slot(dst);
                let all = POOL.len() + ODD.len();
                let k = idx(text, all);
                let t = if k < POOL.len() { POOL[k] } else { ODD[k - POOL.len()] };
                let (node, l) = match loc.and_then(|l| self.span_for(l)) {
                    Some((span, l)) => (Node::new_str_parsed(t, span), Some(l)),
                    None => (Node::new_str(t), None),
                };
                self.log(|| format!("d{} = Node::{}({:?}{})", dst, if l.is_some() { "new_str_parsed" } else { "new_str" }, t, fmt_loc(&l)));
                self.allocs.push(AllocM { val: Val::S(t.into()), name: None, loc: l, refs: 1, ext: false, tracker: None });
                self.nodes[dst] = Some((NodeV::S(node), self.allocs.len() - 1));
                self.effective += 1;
            }
            Op::NodeClone { sel, dst } => {
                let dst = idx(dst, NSLOTS);
                let Some(s) = Self::pick(&self.nodes, sel) else { return Ok(()) };
                let (n, ai) = self.nodes[s].as_ref().unwrap();
                let (c, ai) = (n.clone_v(), *ai);
                self.allocs[ai].refs += 1;
                self.drop_node_slot(dst);
                self.log(|| format!("d{} = d{}.clone()", dst, s));
                self.nodes[dst] = Some((c, ai));
                self.effective += 1;
            }
            Op::NodeDrop { sel } => {
                let Some(s) = Self::pick(&self.nodes, sel) else { return Ok(()) };
                self.log(|| format!("drop(d{})", s));
                self.drop_node_slot(s);
                self.effective += 1;
            }
            Op::MakeMut { sel, n } => {
                let Some(s) = Self::pick(&self.nodes, sel) else { return Ok(()) };
                let (node, ai) = self.nodes[s].as_mut().unwrap();
                let ai = *ai;
                let NodeV::P(node) = node else { return Ok(()) };
                let before = &**node as *const Payload;
                {
                    let p = node.make_mut();
                    p.n = n as u64;
                }
                let after = &**node as *const Payload;
                let new_loc = loc_of(node.location());
                let unique = self.allocs[ai].refs == 1 && !self.allocs[ai].ext;
                self.log(|| format!("d{}.make_mut().n = {}   [{}]", s, n, if unique { "unique: in place" } else { "shared: copy" }));
                if unique {
                    // (whether the value stayed at its address is not part of the property; counted only)
                    if before != after {
                        self.moved_unique += 1;
                    }
                    self.allocs[ai].val = Val::P(n as u64);
                } else {
                    let old_loc = self.allocs[ai].loc.clone();
                    if new_loc != old_loc && new_loc.is_some() {
                        return fail("C30|make_mut|location", format!("copy made by make_mut has location {:?}, original {:?}", new_loc, old_loc));
                    }
                    let name = self.allocs[ai].name.clone();
                    let tracker = self.allocs[ai].tracker;
                    // the payload was cloned: one more tracker clone, one more embedded name
                    if let Some(t) = tracker {
                        self.trackers[t].1 += 1;
                    }
                    self.names_delta(name.as_ref().and_then(|m| m.canary), 1);
                    self.allocs.push(AllocM { val: Val::P(n as u64), name, loc: new_loc, refs: 1, ext: false, tracker });
                    let ni = self.allocs.len() - 1;
                    self.nodes[s].as_mut().unwrap().1 = ni;
                    self.release_alloc(ai);
                }
                self.effective += 1;
            }
            Op::GetMut { sel, n } => {
                let Some(s) = Self::pick(&self.nodes, sel) else { return Ok(()) };
                let (node, ai) = self.nodes[s].as_mut().unwrap();
                let ai = *ai;
                let unique = self.allocs[ai].refs == 1 && !self.allocs[ai].ext;
                let got = match node {
                    NodeV::P(node) => match node.get_mut() {
                        Some(p) => {
                            p.n = n as u64;
                            true
                        }
                        None => false,
                    },
                    NodeV::S(node) => match node.get_mut() {
                        Some(p) => {
                            p.make_ascii_uppercase();
                            true
                        }
                        None => false,
                    },
                };
                if got != unique {
                    return fail(
                        if got { "C30|get_mut|some-for-shared" } else { "C30|get_mut|none-for-unique" },
                        format!("get_mut returned {} but the model says unique = {}", if got { "Some" } else { "None" }, unique),
                    );
                }
                if got {
                    let a = &mut self.allocs[ai];
                    a.val = match &a.val {
                        Val::P(_) => Val::P(n as u64),
                        Val::S(t) => Val::S(t.to_ascii_uppercase()),
                    };
                }
                self.log(|| format!("d{}.get_mut() -> {}", s, if got { "Some, mutated" } else { "None" }));
                self.effective += 1;
            }
            Op::PtrEq { a, b } => {
                let (Some(a), Some(b)) = (Self::pick(&self.nodes, a), Self::pick(&self.nodes, b)) else { return Ok(()) };
                let (na, ia) = self.nodes[a].as_ref().unwrap();
                let (nb, ib) = self.nodes[b].as_ref().unwrap();
                let got = match (na, nb) {
                    (NodeV::P(x), NodeV::P(y)) => x.ptr_eq(y),
                    (NodeV::S(x), NodeV::S(y)) => x.ptr_eq(y),
                    _ => return Ok(()),
                };
                if got != (ia == ib) {
                    return fail("C30|ptr_eq", format!("ptr_eq = {} but the model says same allocation = {}", got, ia == ib));
                }
                self.log(|| format!("d{}.ptr_eq(d{}) = {}", a, b, got));
                self.effective += 1;
            }
            Op::SameLoc { sel, dst, n } => {
                let dst = idx(dst, NSLOTS);
                let Some(s) = Self::pick(&self.nodes, sel) else { return Ok(()) };
                let tracker = Arc::new(());
                let p = Payload { n: n as u64, name: None, tracker: tracker.clone() };
                let (src, ai) = self.nodes[s].as_ref().unwrap();
                let node = match src {
                    NodeV::P(x) => x.same_location(p),
                    NodeV::S(x) => x.same_location(p),
                };
                let l = self.allocs[*ai].loc.clone();
                self.trackers.push((tracker, 1));
                let ti = self.trackers.len() - 1;
                self.drop_node_slot(dst);
                self.log(|| format!("d{} = d{}.same_location(Payload {{ n: {} }})", dst, s, n));
                self.allocs.push(AllocM { val: Val::P(n as u64), name: None, loc: l, refs: 1, ext: false, tracker: Some(ti) });
                self.nodes[dst] = Some((NodeV::P(node), self.allocs.len() - 1));
                self.effective += 1;
            }
            Op::ProbeNodes { a, b } => {
                let (Some(a), Some(b)) = (Self::pick(&self.nodes, a), Self::pick(&self.nodes, b)) else { return Ok(()) };
                let (na, ia) = self.nodes[a].as_ref().unwrap();
                let (nb, ib) = self.nodes[b].as_ref().unwrap();
                let (ma, mb) = (&self.allocs[*ia], &self.allocs[*ib]);
                let same_value = ma.val == mb.val && ma.name.as_ref().map(|m| &m.text) == mb.name.as_ref().map(|m| &m.text);
                let (eq, ha, hb) = match (na, nb) {
                    (NodeV::P(x), NodeV::P(y)) => (x == y, hash_of(x), hash_of(y)),
                    (NodeV::S(x), NodeV::S(y)) => (x == y, hash_of(x), hash_of(y)),
                    _ => return Ok(()),
                };
                if eq != same_value {
                    return fail("C30|node-eq", format!("node == is {} but values equal is {} (locations {:?} / {:?})", eq, same_value, ma.loc, mb.loc));
                }
                if same_value && ha != hb {
                    return fail("C30|node-hash", format!("equal node values hash differently (locations {:?} / {:?})", ma.loc, mb.loc));
                }
                self.log(|| format!("probe eq/hash d{} d{}", a, b));
                self.effective += 1;
            }
            Op::NameMisc { sel, which } => {
                let Some(s) = Self::pick(&self.names, sel) else { return Ok(()) };
                let which = idx(which, 6);
                let (n, m) = self.names[s].as_ref().unwrap();
                let own = match m.canary {
                    Some(CanRef::Own(i)) => Some((&self.canaries[i].arc, 1 + self.canaries[i].names + self.canaries[i].arcs)),
                    _ => None,
                };
                // a temporary copy must show as exactly one more strong reference while it lives
                let count_with_temp = |what: &str| -> Result<(), Fail> {
                    if let Some((arc, base)) = own {
                        let got = Arc::strong_count(arc);
                        if got != base + 1 {
                            return fail(format!("C30|strong-count|during-{}", what), format!("{:?}: Arc::strong_count = {} while a temporary copy made by {} is alive, expected {}", m.text, got, what, base + 1));
                        }
                    }
                    Ok(())
                };
                match which {
                    0 => {
                        let c = if s % 2 == 0 { n.to_component(ComponentOrigin::Definition) } else { ComponentName::from(n) };
                        check_name(&c.name, m, &format!("n{}.to_component().name", s), "to_component")?;
                        count_with_temp("to_component")?;
                        if c != *n || hash_of(&c) != hash_of(n) || c.as_str() != m.text {
                            return fail("C30|component-name|eq-hash", format!("ComponentName of {:?} does not compare / hash like the name", m.text));
                        }
                        let c2 = c.clone();
                        drop(c);
                        check_name(&c2.name, m, &format!("n{}.to_component().clone().name", s), "to_component")?;
                        count_with_temp("to_component")?;
                        drop(c2);
                    }
                    1 => {
                        let js = match serde_json::to_string(n) {
                            Ok(j) => j,
                            Err(e) => return fail("C30|serde|serialize-error", format!("serializing {:?}: {}", m.text, e)),
                        };
                        let want = serde_json::to_string(&m.text).unwrap_or_default();
                        if js != want {
                            return fail("C30|serde|serialize-text", format!("name {:?} serializes as {} (a string would be {})", m.text, js, want));
                        }
                        let back: Result<Name, _> = serde_json::from_str(&js);
                        let valid = refmodel_is_name(&m.text);
                        match back {
                            Ok(b) => {
                                if !valid {
                                    return fail("C30|serde|accepts-invalid-name", format!("deserializing {} gives a Name although {:?} is not a GraphQL name", js, m.text));
                                }
                                if b.as_str() != m.text || b.location().is_some() {
                                    return fail("C30|serde|deserialize-text", format!("deserializing {} gives {:?} with location {:?}", js, b.as_str(), b.location()));
                                }
                                if let Some(a) = b.to_cloned_arc() {
                                    // a fresh string: this handle and the name
                                    if Arc::strong_count(&a) != 2 {
                                        return fail("C30|serde|deserialize-count", format!("deserialized name {:?}: backing Arc has strong count {}, expected 2", m.text, Arc::strong_count(&a)));
                                    }
                                }
                            }
                            Err(e) => {
                                if valid {
                                    return fail("C30|serde|rejects-valid-name", format!("deserializing {} fails: {}", js, e));
                                }
                            }
                        }
                    }
                    2 => {
                        let b: &str = std::borrow::Borrow::borrow(n);
                        let a: &str = n.as_ref();
                        let d: &str = n;
                        if b != m.text || a != m.text || d != m.text {
                            return fail("C30|name-borrow|text", format!("Borrow / AsRef / Deref of {:?} read {:?} / {:?} / {:?}", m.text, b, a, d));
                        }
                        // `Borrow<str>` requires Hash (and Eq, Ord) to agree with str's
                        if hash_of(n) != hash_of(m.text.as_str()) {
                            return fail("C30|name-borrow|hash", format!("name {:?} (location {:?}) does not hash like its str although it implements Borrow<str>", m.text, m.loc));
                        }
                        let mut set: std::collections::BTreeSet<Name> = std::collections::BTreeSet::new();
                        set.insert(n.clone());
                        count_with_temp("clone-into-set")?;
                        if !set.contains(m.text.as_str()) {
                            return fail("C30|name-borrow|ord-lookup", format!("BTreeSet<Name> lookup by str does not find {:?}", m.text));
                        }
                    }
                    3 => {
                        let (d, g) = (format!("{}", n), format!("{:?}", n));
                        if d != m.text || g != format!("{:?}", m.text) {
                            return fail("C30|name-fmt", format!("Display / Debug of {:?} print {:?} / {:?}", m.text, d, g));
                        }
                    }
                    4 => {
                        let other = POOL[idx(sel.wrapping_mul(13), POOL.len())];
                        let eq = m.text == other;
                        if (*n == *other) != eq || (*n == other) != eq || (PartialOrd::<str>::partial_cmp(n, other) != Some(m.text.as_str().cmp(other))) || (PartialOrd::<&str>::partial_cmp(n, &other) != Some(m.text.as_str().cmp(other))) {
                            return fail("C30|name-vs-str", format!("comparing name {:?} with str {:?}: == {} / cmp {:?}", m.text, other, *n == *other, PartialOrd::<str>::partial_cmp(n, other)));
                        }
                    }
                    _ => {
                        let c = Name::from(n);
                        count_with_temp("From<&Name>")?;
                        if c.len() != m.text.len() || n.len() != m.text.len() {
                            return fail("C30|name-len", format!("len of {:?} is {}", m.text, n.len()));
                        }
                        check_name(&c, m, &format!("Name::from(&n{})", s), "from-ref")?;
                    }
                }
                self.log(|| format!("n{}: {}", s, ["to_component", "serde round trip", "Borrow/AsRef/Deref + hash", "Display/Debug", "compare with str", "From<&Name>, len"][which]));
                self.effective += 1;
            }
            Op::NodeMisc { sel, which } => {
                let Some(s) = Self::pick(&self.nodes, sel) else { return Ok(()) };
                let which = idx(which, 4);
                let (node, ai) = self.nodes[s].as_ref().unwrap();
                let a = &self.allocs[*ai];
                match which {
                    0 => match node {
                        NodeV::P(x) => {
                            let c = x.to_component(ComponentOrigin::Definition);
                            let c2: Component<Payload> = Component::from(x.clone());
                            if !c.node.ptr_eq(x) || !c2.node.ptr_eq(x) || loc_of(c.location()) != a.loc || c != c2 || hash_of(&c) != hash_of(x) {
                                return fail("C30|component-node", "Component made from a node is not the same allocation / location / value");
                            }
                            // three handles more: the node is certainly shared now
                            let mut c3 = c2.clone();
                            if c3.get_mut().is_some() {
                                return fail("C30|get_mut|some-for-shared", "get_mut returned Some while Components share the node");
                            }
                        }
                        NodeV::S(x) => {
                            let c = x.to_component(ComponentOrigin::Definition);
                            if !c.node.ptr_eq(x) || loc_of(c.location()) != a.loc || c.as_str() != x.as_str() {
                                return fail("C30|component-node", "Component made from a str node is not the same allocation / location / value");
                            }
                        }
                    },
                    1 => {
                        let ok = match node {
                            NodeV::P(x) => {
                                let b: &Payload = std::borrow::Borrow::borrow(x);
                                let r: &Payload = x.as_ref();
                                std::ptr::eq(b, &**x) && std::ptr::eq(r, &**x) && hash_of(x) == hash_of(b)
                            }
                            NodeV::S(x) => {
                                let b: &str = std::borrow::Borrow::borrow(x);
                                let r: &str = x.as_ref();
                                b == x.as_str() && r == x.as_str() && hash_of(x) == hash_of(b)
                            }
                        };
                        if !ok {
                            return fail("C30|node-borrow", format!("Borrow / AsRef of a node (location {:?}) do not read / hash like its value", a.loc));
                        }
                    }
                    2 => {
                        if let (NodeV::S(x), Val::S(t)) = (node, &a.val) {
                            // the exact Debug format is not part of the property: the text must be in it
                            let want = format!("{:?}", t);
                            let (d, g) = (format!("{}", x), format!("{:?}", x));
                            if d != *t || !g.ends_with(&want) {
                                return fail("C30|node-fmt", format!("Display / Debug of a str node print {:?} / {:?}, expected {:?} / ..{:?}", d, g, t, want));
                            }
                        }
                    }
                    _ => {
                        if let (NodeV::S(x), Val::S(t)) = (node, &a.val) {
                            let s1 = String::from(x);
                            let s2 = String::from(x.clone());
                            let back = Node::<str>::from(s1.clone());
                            if s1 != *t || s2 != *t || back.as_str() != t || back.location().is_some() || back.ptr_eq(x) {
                                return fail("C30|node-str-conversions", format!("String::from(node) = {:?} / {:?}, expected {:?}", s1, s2, t));
                            }
                        }
                    }
                }
                self.log(|| format!("d{}: {}", s, ["to_component / Component::from", "Borrow/AsRef + hash", "Display/Debug", "String conversions"][which]));
                self.effective += 1;
            }
            Op::BadName { text, how } => {
                let t = ODD[idx(text, ODD.len())];
                let how = idx(how, 5);
                let err = match how {
                    0 => Name::new(t).err(),
                    1 => Name::new_static(t).err(),
                    2 => Name::try_from(String::from(t)).err(),
                    3 => serde_json::from_str::<Name>(&serde_json::to_string(t).unwrap_or_default()).err().map(|_| apollo_compiler::InvalidNameError { name: t.to_string(), location: None }),
                    _ => {
                        // the Arc handle given to the failing constructor must be released again
                        self.canaries.push(Canary { arc: Arc::from(t), names: 0, arcs: 0, cloned: false });
                        let h = self.canaries.last().unwrap().arc.clone();
                        Name::try_from(h).err()
                    }
                };
                match err {
                    None => return fail("C30|bad-name|accepted", format!("constructor {} accepts {:?}, which is not a GraphQL name", how, t)),
                    Some(e) => {
                        if e.name != t || e.location.is_some() {
                            return fail("C30|bad-name|error-value", format!("constructor {} given {:?} reports name {:?}, location {:?}", how, t, e.name, e.location));
                        }
                    }
                }
                self.log(|| format!("{}({:?}) is rejected", ["Name::new", "Name::new_static", "Name::try_from(String)", "deserialize", "Name::try_from(Arc<str>)"][how], t));
                self.effective += 1;
            }
            Op::CloneSharedName { sel, dst } => {
                let Some(p) = self.parent else { return Ok(()) };
                let dst = idx(dst, NSLOTS);
                let Some(s) = Self::pick(&p.names, sel) else { return Ok(()) };
                let (n, m) = p.names[s].as_ref().unwrap();
                let c = n.clone();
                let mut m = m.clone();
                m.canary = m.canary.map(|r| match r {
                    CanRef::Own(i) => CanRef::Parent(i),
                    x => x,
                });
                self.drop_name_slot(dst);
                self.log(|| format!("n{} = shared.n{}.clone()", dst, s));
                self.names[dst] = Some((c, m));
                self.effective += 1;
            }
            Op::CloneSharedNode { sel, dst } => {
                let Some(p) = self.parent else { return Ok(()) };
                let dst = idx(dst, NSLOTS);
                let Some(s) = Self::pick(&p.nodes, sel) else { return Ok(()) };
                let (n, pai) = p.nodes[s].as_ref().unwrap();
                let c = n.clone_v();
                let li = match self.ext_map.get(pai) {
                    Some(&li) => {
                        self.allocs[li].refs += 1;
                        li
                    }
                    None => {
                        let pa = &p.allocs[*pai];
                        let name = pa.name.clone().map(|mut m| {
                            m.canary = m.canary.map(|r| match r {
                                CanRef::Own(i) => CanRef::Parent(i),
                                x => x,
                            });
                            m
                        });
                        self.allocs.push(AllocM { val: pa.val.clone(), name, loc: pa.loc.clone(), refs: 1, ext: true, tracker: None });
                        self.ext_map.insert(*pai, self.allocs.len() - 1);
                        self.allocs.len() - 1
                    }
                };
                self.drop_node_slot(dst);
                self.log(|| format!("d{} = shared.d{}.clone()", dst, s));
                self.nodes[dst] = Some((c, li));
                self.effective += 1;
            }
            Op::ReadShared { sel } => {
                let Some(p) = self.parent else { return Ok(()) };
                if let Some(s) = Self::pick(&p.names, sel) {
                    let (n, m) = p.names[s].as_ref().unwrap();
                    check_name(n, m, &format!("shared n{}", s), "read-shared")?;
                    if let Some(t) = Self::pick(&self.names, sel.wrapping_mul(7)) {
                        let (ln, lm) = self.names[t].as_ref().unwrap();
                        probe_names(n, m, ln, lm)?;
                    }
                }
                if let Some(s) = Self::pick(&p.nodes, sel) {
                    let (n, ai) = p.nodes[s].as_ref().unwrap();
                    check_node(n, &p.allocs[*ai], &format!("shared d{}", s), "read-shared")?;
                }
                self.log(|| "read shared".to_string());
                self.effective += 1;
            }
        }
        Ok(())
    }

    /// Read everything back and compare with the model.
    pub fn verify(&self) -> Result<(), Fail> {
        let k = self.last_kind;
        for (i, s) in self.names.iter().enumerate() {
            if let Some((n, m)) = s {
                check_name(n, m, &format!("{}n{}", self.tag, i), k)?;
            }
        }
        for (i, c) in self.canaries.iter().enumerate() {
            let want = 1 + c.names + c.arcs;
            let got = Arc::strong_count(&c.arc);
            if got != want {
                return fail(
                    format!("C30|strong-count|after-{}", k),
                    format!(
                        "backing string s{} ({:?}): Arc::strong_count = {}, expected {} (1 canary + {} live names + {} live Arc handles) after step {} ({})",
                        i, &*c.arc, got, want, c.names, c.arcs, self.steps, k
                    ),
                );
            }
        }
        for (i, s) in self.arcs.iter().enumerate() {
            if let Some((a, r, text)) = s {
                if &**a != text.as_str() {
                    return fail(format!("C30|arc-text|after-{}", k), format!("a{} reads {:?}, expected {:?}", i, &**a, text));
                }
                if let Some(r) = r {
                    if !Arc::ptr_eq(a, self.canary_arc(*r)) {
                        return fail(format!("C30|arc-identity|after-{}", k), format!("a{} no longer is its backing string", i));
                    }
                }
            }
        }
        for (i, s) in self.nodes.iter().enumerate() {
            if let Some((n, ai)) = s {
                check_node(n, &self.allocs[*ai], &format!("{}d{}", self.tag, i), k)?;
            }
        }
        for (i, (t, live)) in self.trackers.iter().enumerate() {
            let got = Arc::strong_count(t);
            if got != 1 + live {
                return fail(
                    format!("C30|payload-count|after-{}", k),
                    format!("payload family {}: {} live payload values, expected {} after step {} ({})", i, got - 1, live, self.steps, k),
                );
            }
        }
        Ok(())
    }

    /// Worker thread, end of its last repetition: every value that is a copy of something in the shared
    /// pool (clones of shared heap names, static names, clones of shared nodes) is moved out, to be
    /// dropped by the main thread after the join; everything else is dropped here.
    fn finish_handover(&mut self) -> Result<(Vec<Name>, Vec<NodeV>), Fail> {
        let mut names = vec![];
        let mut nodes = vec![];
        for i in 0..NSLOTS {
            let keep = matches!(&self.names[i], Some((_, m)) if !matches!(m.canary, Some(CanRef::Own(_))));
            if keep {
                let (n, _) = self.names[i].take().unwrap();
                names.push(n);
            }
            let keep = matches!(&self.nodes[i], Some((_, ai)) if self.allocs[*ai].ext);
            if keep {
                let (n, ai) = self.nodes[i].take().unwrap();
                self.allocs[ai].refs -= 1;
                nodes.push(n);
            }
        }
        if !names.is_empty() || !nodes.is_empty() {
            self.log(|| format!("hands {} name(s) and {} node handle(s) over to the main thread", names.len(), nodes.len()));
        }
        self.finish()?;
        Ok((names, nodes))
    }

    /// Drop every slot; all counts must return to 1.
    pub fn finish(&mut self) -> Result<(), Fail> {
        self.last_kind = "final-drop";
        for i in 0..NSLOTS {
            self.drop_node_slot(i);
        }
        for i in 0..NSLOTS {
            self.drop_name_slot(i);
        }
        for i in 0..NSLOTS {
            self.drop_arc_slot(i);
        }
        self.verify()?;
        for (i, c) in self.canaries.iter().enumerate() {
            if c.names + c.arcs != 0 {
                return fail("C30|harness|model-not-empty", format!("model of s{} still has {} names / {} arcs", i, c.names, c.arcs));
            }
        }
        Ok(())
    }
}

fn fmt_loc(l: &Option<Loc>) -> String {
    match l {
        Some(l) => format!(", {}..{} @{}", l.start, l.end, l.id),
        None => String::new(),
    }
}

fn check_name(n: &Name, m: &NameM, what: &str, k: &str) -> Result<(), Fail> {
    if n.as_str() != m.text || n.len() != m.text.len() {
        return fail(format!("C30|name-text|after-{}", k), format!("{} reads {:?} (len {}), expected {:?}", what, n.as_str(), n.len(), m.text));
    }
    let l = loc_of(n.location());
    if l != m.loc {
        return fail(format!("C30|name-location|after-{}", k), format!("{} ({:?}) has location {:?}, expected {:?}", what, m.text, l, m.loc));
    }
    if n.as_static_str().is_some() != m.stat.is_some() {
        return fail(format!("C30|name-kind|after-{}", k), format!("{} ({:?}) static = {}, expected {}", what, m.text, n.as_static_str().is_some(), m.stat.is_some()));
    }
    Ok(())
}

fn check_node(n: &NodeV, a: &AllocM, what: &str, k: &str) -> Result<(), Fail> {
    let l = loc_of(n.location());
    if l != a.loc {
        return fail(format!("C30|node-location|after-{}", k), format!("{} has location {:?}, expected {:?}", what, l, a.loc));
    }
    match (n, &a.val) {
        (NodeV::P(n), Val::P(v)) => {
            if n.n != *v {
                return fail(format!("C30|node-value|after-{}", k), format!("{} reads n = {}, expected {}", what, n.n, v));
            }
            match (&n.name, &a.name) {
                (None, None) => {}
                (Some(nm), Some(m)) => check_name(nm, m, &format!("{}.name", what), k)?,
                _ => return fail("C30|harness|payload-name", "payload name presence differs from the model"),
            }
        }
        (NodeV::S(n), Val::S(t)) => {
            if n.as_str() != t {
                return fail(format!("C30|node-value|after-{}", k), format!("{} reads {:?}, expected {:?}", what, n.as_str(), t));
            }
        }
        _ => return fail("C30|harness|node-kind", "node kind differs from the model"),
    }
    Ok(())
}

fn probe_names(na: &Name, ma: &NameM, nb: &Name, mb: &NameM) -> Result<(), Fail> {
    let same = ma.text == mb.text;
    if (na == nb) != same || (nb == na) != same {
        return fail(
            "C30|name-eq",
            format!("{:?} == {:?} is {} (locations {:?} / {:?}, static {} / {})", ma.text, mb.text, na == nb, ma.loc, mb.loc, ma.stat.is_some(), mb.stat.is_some()),
        );
    }
    if same && hash_of(na) != hash_of(nb) {
        return fail("C30|name-hash", format!("equal names {:?} hash differently (locations {:?} / {:?}, static {} / {})", ma.text, ma.loc, mb.loc, ma.stat.is_some(), mb.stat.is_some()));
    }
    let (ab, ba) = (na.cmp(nb), nb.cmp(na));
    if (ab == std::cmp::Ordering::Equal) != same || ab != ba.reverse() {
        return fail("C30|name-ord", format!("cmp({:?}, {:?}) = {:?}, reverse = {:?}", ma.text, mb.text, ab, ba));
    }
    Ok(())
}

// ------------------------------------------------------------------------------------------------
// Whole cases

pub struct RunOut {
    pub trace: String,
    pub nontrivial: bool,
    pub steps: usize,
    pub effective: usize,
    pub threads: usize,
    pub kinds: std::collections::BTreeSet<&'static str>,
    pub thread_kinds: std::collections::BTreeSet<&'static str>,
    pub moved_unique: usize,
    pub fail: Option<Fail>,
}

fn pick_files(c: &mut Choices) -> Result<[Arc<LocFile>; 2], Fail> {
    let a = c.choose(FILE_IDS.len());
    let b = c.choose(FILE_IDS.len());
    let get = |i| locfile(i).map_err(|e| ("C30|location-source".to_string(), format!("file id {}: {}", FILE_IDS[i], e)));
    Ok([get(a)?, get(b)?])
}

/// Single-threaded history.
pub fn run_single(bytes: &[u8], trace: bool) -> RunOut {
    let mut c = Choices::new(bytes);
    let mut out = RunOut { trace: String::new(), nontrivial: false, steps: 0, effective: 0, threads: 0, kinds: Default::default(), thread_kinds: Default::default(), moved_unique: 0, fail: None };
    let files = match pick_files(&mut c) {
        Ok(f) => f,
        Err(e) => {
            out.fail = Some(e);
            return out;
        }
    };
    let nops = c.range(1, 60);
    let mut st = State::new(files, None, "", trace);
    let mut r = Ok(());
    for _ in 0..nops {
        let op = decode_op(&mut c);
        r = st.step(&op);
        if r.is_err() {
            break;
        }
    }
    if r.is_ok() {
        r = st.finish();
    }
    out.nontrivial = st.nontrivial;
    out.steps = st.steps;
    out.effective = st.effective;
    out.kinds = std::mem::take(&mut st.kinds);
    out.moved_unique = st.moved_unique;
    out.trace = st.trace.take().unwrap_or_default();
    out.fail = r.err();
    out
}

/// Sequential prefix, then 2-4 real threads working on clones of the shared slots, then a sequential suffix.
pub fn run_threaded(bytes: &[u8], trace: bool, rep_cap: usize) -> RunOut {
    let mut c = Choices::new(bytes);
    let mut out = RunOut { trace: String::new(), nontrivial: false, steps: 0, effective: 0, threads: 0, kinds: Default::default(), thread_kinds: Default::default(), moved_unique: 0, fail: None };
    let files = match pick_files(&mut c) {
        Ok(f) => f,
        Err(e) => {
            out.fail = Some(e);
            return out;
        }
    };
    let mut st = State::new(files.clone(), None, "", trace);
    let prefix = c.range(1, 30);
    let mut r = Ok(());
    for _ in 0..prefix {
        let op = decode_op(&mut c);
        r = st.step(&op);
        if r.is_err() {
            break;
        }
    }
    let k = 2 + c.choose(3);
    let reps = [1usize, 1, 8, 40][c.choose(4)].min(rep_cap.max(1));
    let tops: Vec<Vec<Op>> = (0..k)
        .map(|_| {
            let n = c.range(1, 16);
            (0..n).map(|_| decode_thread_op(&mut c)).collect()
        })
        .collect();
    let suffix: Vec<Op> = {
        let n = c.range(0, 12);
        (0..n).map(|_| decode_op(&mut c)).collect()
    };
    // the last repetition of every worker hands its copies of shared values over to the main thread
    let handover = c.coin();
    out.threads = k;
    if r.is_ok() {
        let barrier = Barrier::new(k);
        let shared = &st;
        type Handed = (Vec<Name>, Vec<NodeV>);
        type Kinds = std::collections::BTreeSet<&'static str>;
        let results: Vec<(String, Result<(bool, usize, Handed, Kinds), Fail>)> = std::thread::scope(|s| {
            let handles: Vec<_> = tops
                .iter()
                .enumerate()
                .map(|(ti, ops)| {
                    let files = files.clone();
                    let barrier = &barrier;
                    s.spawn(move || -> (String, Result<(bool, usize, Handed, Kinds), Fail>) {
                        barrier.wait();
                        let mut tr = String::new();
                        let mut nt = false;
                        let mut eff = 0;
                        let mut handed: Handed = (vec![], vec![]);
                        let mut kinds: Kinds = Default::default();
                        for rep in 0..reps {
                            // the trace of the first repetition is kept, and the one of a failing repetition
                            let mut l = State::new(files.clone(), Some(shared), &format!("  T{}: ", ti), trace);
                            let mut r = Ok(());
                            for op in ops {
                                r = l.step(op);
                                if r.is_err() {
                                    break;
                                }
                            }
                            if r.is_ok() {
                                r = if handover && rep + 1 == reps {
                                    l.finish_handover().map(|h| handed = h)
                                } else {
                                    l.finish()
                                };
                            }
                            if let Err(e) = r {
                                let mut t = l.trace.take().unwrap_or_default();
                                let _ = writeln!(t, "  T{}: ^ failed in repetition {}", ti, rep + 1);
                                return (t, Err(e));
                            }
                            nt |= l.nontrivial;
                            eff += l.effective;
                            kinds.extend(l.kinds.iter().copied());
                            if rep == 0 {
                                tr = l.trace.take().unwrap_or_default();
                            }
                        }
                        if handover && reps > 1 {
                            tr.push_str(&format!("  T{}: (the last repetition hands its copies of shared values over to the main thread)\n", ti));
                        }
                        (tr, Ok((nt, eff, handed, kinds)))
                    })
                })
                .collect();
            handles
                .into_iter()
                .map(|h| match h.join() {
                    Ok(r) => r,
                    Err(p) => {
                        let msg = p.downcast_ref::<&str>().map(|s| s.to_string()).or_else(|| p.downcast_ref::<String>().cloned()).unwrap_or_else(|| "<non-string panic>".into());
                        (String::new(), Err(("C30|panic|worker-thread".to_string(), format!("worker thread panicked: {}", msg))))
                    }
                })
                .collect()
        });
        if trace {
            let t = st.trace.as_mut().unwrap();
            let _ = writeln!(t, "-- {} threads, each repeating its operations {} time(s) on a fresh local pool", k, reps);
        }
        let mut all_handed: Vec<Handed> = vec![];
        let mut thread_kinds: Kinds = Default::default();
        for (tr, res) in results {
            if let Some(t) = st.trace.as_mut() {
                t.push_str(&tr);
            }
            match res {
                Ok((nt, eff, handed, kinds)) => {
                    st.nontrivial |= nt;
                    st.effective += eff;
                    thread_kinds.extend(kinds);
                    if !handed.0.is_empty() || !handed.1.is_empty() {
                        thread_kinds.insert("handover");
                    }
                    all_handed.push(handed);
                }
                Err(e) => {
                    if r.is_ok() {
                        r = Err(e);
                    }
                }
            }
        }
        // values made by the workers are read once more and dropped here, on another thread than the
        // one that made them (also when a worker failed: nothing may outlive the pool)
        let n_handed: usize = all_handed.iter().map(|h| h.0.len() + h.1.len()).sum();
        for (names, nodes) in all_handed {
            for n in names {
                let _ = n.as_str().len();
                drop(n);
            }
            for n in nodes {
                let _ = n.location();
                drop(n);
            }
        }
        out.thread_kinds = thread_kinds;
        if trace && n_handed > 0 {
            let _ = writeln!(st.trace.as_mut().unwrap(), "-- main drops the {} handed-over value(s)", n_handed);
        }
        if r.is_ok() {
            // all workers are gone: the counts must be the ones from before they started
            st.last_kind = "threads-joined";
            r = st.verify();
            if trace {
                let _ = writeln!(st.trace.as_mut().unwrap(), "-- joined");
            }
        }
        if r.is_ok() {
            for op in &suffix {
                r = st.step(op);
                if r.is_err() {
                    break;
                }
            }
        }
        if r.is_ok() {
            r = st.finish();
        }
    }
    out.nontrivial = st.nontrivial;
    out.steps = st.steps;
    out.effective = st.effective;
    out.kinds = std::mem::take(&mut st.kinds);
    out.moved_unique = st.moved_unique;
    out.trace = st.trace.take().unwrap_or_default();
    out.fail = r.err();
    out
}

fn classify(ctx: &mut Ctx, o: &RunOut) {
    ctx.nontrivial = o.nontrivial;
    ctx.class(match (o.threads, o.nontrivial) {
        (0, true) => "single/clone-drop-readback".to_string(),
        (0, false) => "single/other".to_string(),
        (k, true) => format!("threads-{}/clone-drop-readback", k),
        (k, false) => format!("threads-{}/other", k),
    });
    ctx.sub_evals += o.effective as u64;
    for k in &o.kinds {
        ctx.class(format!("op/{}", k));
    }
    for k in &o.thread_kinds {
        ctx.class(format!("thread-op/{}", k));
    }
    if o.moved_unique > 0 {
        ctx.class("make_mut-moved-a-unique-value");
    }
}

/// Allocation delta (blocks, bytes) of one untraced run of the history on this thread.
fn alloc_delta(bytes: &[u8]) -> (i64, i64) {
    let s0 = alloc_count::snapshot();
    {
        let o = run_single(bytes, false);
        drop(o);
    }
    let s1 = alloc_count::snapshot();
    (s1.0 - s0.0, s1.1 - s0.1)
}

pub fn check_history(bytes: &[u8], ctx: &mut Ctx) -> Outcome {
    let o = run_single(bytes, true);
    ctx.set_sample(o.trace.clone());
    classify(ctx, &o);
    if let Some((sig, detail)) = o.fail {
        return Outcome::fail(sig, detail);
    }
    // leak accounting on an untraced second run (the first run has initialised every lazy cache)
    let d1 = alloc_delta(bytes);
    if d1 != (0, 0) {
        let d2 = alloc_delta(bytes);
        if d2 == d1 {
            return Outcome::fail(
                "C30|leak|allocation-delta",
                format!("running the history leaves {} live allocation(s) / {} bytes behind on its thread, on each of two consecutive runs", d1.0, d1.1),
            );
        }
    }
    Outcome::Pass
}

pub fn check_threaded(bytes: &[u8], ctx: &mut Ctx) -> Outcome {
    let o = run_threaded(bytes, true, usize::MAX);
    ctx.set_sample(o.trace.clone());
    classify(ctx, &o);
    match o.fail {
        Some((sig, detail)) => Outcome::fail(sig, detail),
        None => Outcome::Pass,
    }
}

// ------------------------------------------------------------------------------------------------
// Miri stage (thorough tier): the same interpreter in `src/bin/c30_miri.rs` under `cargo +nightly miri run`

fn harness_dir(exe: &str) -> String {
    // <harness>/target/<profile>/verif
    let p = std::path::Path::new(exe);
    if let Some(d) = p.parent().and_then(|d| d.parent()).and_then(|d| d.parent()) {
        if d.join("Cargo.toml").exists() {
            return d.to_string_lossy().to_string();
        }
    }
    env!("CARGO_MANIFEST_DIR").to_string()
}

/// rowan (the syntax-tree crate under apollo-parser) is rejected by both of Miri's aliasing models, and a
/// `SourceSpan` can only be obtained from a parse. So each history runs in one of two modes.
#[derive(Clone, Copy, PartialEq, Eq, Debug)]
pub enum MiriMode {
    /// default Miri (Stacked Borrows, data races, leaks); nothing is parsed, location operations are no-ops
    AliasingNoLocations,
    /// `-Zmiri-disable-stacked-borrows` (use-after-free, double free, data races, leaks); with locations
    LocationsNoAliasing,
}

pub struct MiriRun {
    pub status: Option<i32>,
    pub stdout: String,
    pub stderr: String,
    pub timed_out: bool,
}

/// Run `cargo +nightly miri run --bin c30_miri -- args` with a wall-clock limit.
pub fn miri_run(dir: &str, mode: MiriMode, miri_seed: u64, args: &[String], limit_s: u64) -> Result<MiriRun, String> {
    use std::io::Read;
    use std::process::{Command, Stdio};
    let mut cmd = Command::new("cargo");
    cmd.current_dir(dir)
        .arg("+nightly").arg("miri").arg("run").arg("--quiet").arg("--bin").arg("c30_miri").arg("--")
        .args(if mode == MiriMode::AliasingNoLocations { vec!["--no-locations".to_string()] } else { vec![] })
        .args(args)
        .env("CARGO_NET_OFFLINE", "true")
        .env(
            "MIRIFLAGS",
            format!("-Zmiri-seed={}{}", miri_seed, if mode == MiriMode::LocationsNoAliasing { " -Zmiri-disable-stacked-borrows" } else { "" }),
        )
        .env_remove("RUSTFLAGS")
        .stdin(Stdio::null())
        .stdout(Stdio::piped())
        .stderr(Stdio::piped());
    let mut child = cmd.spawn().map_err(|e| format!("cannot start cargo miri: {}", e))?;
    let mut so = child.stdout.take().unwrap();
    let mut se = child.stderr.take().unwrap();
    let t1 = std::thread::spawn(move || {
        let mut s = String::new();
        let _ = so.read_to_string(&mut s);
        s
    });
    let t2 = std::thread::spawn(move || {
        let mut s = String::new();
        let _ = se.read_to_string(&mut s);
        s
    });
    let t0 = std::time::Instant::now();
    let mut timed_out = false;
    let status = loop {
        match child.try_wait() {
            Ok(Some(st)) => break st.code(),
            Ok(None) => {
                if t0.elapsed().as_secs() > limit_s {
                    let _ = child.kill();
                    let _ = child.wait();
                    timed_out = true;
                    break None;
                }
                std::thread::sleep(std::time::Duration::from_millis(50));
            }
            Err(e) => return Err(format!("wait: {}", e)),
        }
    };
    Ok(MiriRun { status, stdout: t1.join().unwrap_or_default(), stderr: t2.join().unwrap_or_default(), timed_out })
}

/// First line of Miri's report ("error: Undefined Behavior: ..."), normalised into a signature.
fn miri_error_sig(stderr: &str) -> Option<(String, String)> {
    let pos = stderr.find("error: ")?;
    let line = stderr[pos..].lines().next().unwrap_or("");
    if !(line.contains("Undefined Behavior") || line.contains("memory leaked") || line.contains("Data race") || line.contains("unsupported operation") || line.contains("deadlock") || line.contains("abnormal termination")) {
        return None;
    }
    // keep the kind, drop addresses / allocation ids
    let mut kind = String::new();
    let mut in_digits = false;
    for ch in line.chars().take(120) {
        if ch.is_ascii_digit() {
            if !in_digits {
                kind.push('#');
            }
            in_digits = true;
        } else {
            in_digits = false;
            kind.push(ch);
        }
    }
    // apollo frames
    let frame = stderr
        .lines()
        .filter_map(|l| l.find("crates/apollo-compiler/src/").map(|i| l[i..].split(':').next().unwrap_or("").to_string()))
        .next()
        .unwrap_or_default();
    Some((format!("C30|miri|{}|{}", kind.trim(), frame), crate::runner::truncate(&stderr[pos..], 3000)))
}

fn miri_single(mode: &str, bytes: &[u8], ctx: &mut Ctx) -> Outcome {
    let exe = std::env::current_exe().map(|p| p.to_string_lossy().to_string()).unwrap_or_default();
    let dir = harness_dir(&exe);
    let o = if mode == "t" { run_threaded(bytes, true, 2) } else { run_single(bytes, true) };
    ctx.set_sample(o.trace.clone());
    let seed = std::env::var("VERIF_MIRI_SEED").ok().and_then(|s| s.parse().ok()).unwrap_or(0u64);
    for mm in [MiriMode::AliasingNoLocations, MiriMode::LocationsNoAliasing] {
        match miri_run(&dir, mm, seed, &[format!("{}:{}", mode, crate::choices::hex(bytes))], 1500) {
            Err(_) => return ctx.skip("cargo miri cannot be started"),
            Ok(r) if r.timed_out => return ctx.skip("miri run exceeded the wall-clock limit"),
            Ok(r) => {
                if let Some((sig, detail)) = miri_error_sig(&r.stderr) {
                    return Outcome::fail(sig, format!("[{:?}] {}", mm, detail));
                }
                for l in r.stdout.lines() {
                    if let Some(rest) = l.strip_prefix("FAIL ") {
                        let mut it = rest.splitn(3, '\t');
                        let _ = it.next();
                        let sig = it.next().unwrap_or("C30|miri|oracle").to_string();
                        return Outcome::fail(sig, it.next().unwrap_or("").to_string());
                    }
                }
                if r.status != Some(0) {
                    return ctx.skip("miri run failed without a Miri diagnostic (build problem?)");
                }
            }
        }
    }
    Outcome::Pass
}

pub fn check_miri_history(bytes: &[u8], ctx: &mut Ctx) -> Outcome {
    miri_single("h", bytes, ctx)
}

pub fn check_miri_threaded(bytes: &[u8], ctx: &mut Ctx) -> Outcome {
    miri_single("t", bytes, ctx)
}

/// Entry point of `src/bin/c30_miri.rs`: every argument is `h:<hex>` or `t:<hex>`.
pub fn miri_main(args: &[String]) -> i32 {
    let mut code = 0;
    if args.iter().any(|a| a == "--no-locations") {
        NO_LOCATIONS.store(true, std::sync::atomic::Ordering::Relaxed);
    }
    for (i, a) in args.iter().enumerate() {
        let Some((mode, hexs)) = a.split_once(':') else { continue };
        let bytes = crate::choices::unhex(hexs);
        println!("START {}", i);
        let o = if mode == "t" { run_threaded(&bytes, false, 2) } else { run_single(&bytes, false) };
        match o.fail {
            None => println!("OK {}\t{}\t{}\t{}", i, o.nontrivial as u8, o.effective, o.threads),
            Some((sig, detail)) => {
                println!("FAIL {}\t{}\t{}", i, sig, detail.replace('\n', " "));
                code = 1;
            }
        }
    }
    println!("DONE");
    code
}

fn custom(cfg: &RunCfg) -> CustomReport {
    let mut rep = CustomReport::new();
    if cfg.tier != Tier::Thorough && std::env::var("VERIF_C30_MIRI").is_err() {
        rep.notes.push("Miri stage runs in the thorough tier only (or with VERIF_C30_MIRI=1)".into());
        return rep;
    }
    let dir = harness_dir(&cfg.exe);
    let total: u64 = std::env::var("VERIF_C30_MIRI_N").ok().and_then(|s| s.parse().ok()).unwrap_or(300);
    let threaded_every = 3; // every third history is a threaded one
    // the histories: the same generator streams as the native stages (stage indexes 0 and 1), so
    // each Miri case is also a native case
    let cases: Vec<(&'static str, usize, u64, Vec<u8>)> = (0..total)
        .map(|i| {
            if i % threaded_every == 2 {
                ("t", 1usize, i, crate::runner::gen_case(cfg.seed, "C30", 1, i, 420))
            } else {
                ("h", 0usize, i, crate::runner::gen_case(cfg.seed, "C30", 0, i, 320))
            }
        })
        .collect();
    // 1. build (and smoke-run) with a generous limit; failing to build is not a verdict
    let t0 = std::time::Instant::now();
    match miri_run(&dir, MiriMode::AliasingNoLocations, 0, &[], 1500) {
        Err(e) => {
            rep.inconclusive = Some(format!("Miri stage not run: {}", e));
            return rep;
        }
        Ok(r) if r.timed_out || r.status != Some(0) || !r.stdout.contains("DONE") => {
            rep.inconclusive = Some(format!(
                "Miri stage not run: `cargo +nightly miri run --bin c30_miri` did not build/run within 1500 s (status {:?}): {}",
                r.status,
                crate::runner::truncate(r.stderr.trim(), 400)
            ));
            return rep;
        }
        Ok(_) => {}
    }
    rep.notes.push(format!("miri build+smoke run: {:.0}s", t0.elapsed().as_secs_f64()));
    // 2. batches in parallel
    let jobs: usize = std::env::var("VERIF_JOBS").ok().and_then(|s| s.parse().ok()).unwrap_or(16);
    let per = 10usize;
    let batches: Vec<Vec<usize>> = (0..cases.len()).collect::<Vec<_>>().chunks(per).map(|c| c.to_vec()).collect();
    let queue = Arc::new(Mutex::new(batches.into_iter().enumerate().collect::<Vec<_>>()));
    let results: Arc<Mutex<Vec<(Vec<usize>, u64, MiriMode, Result<MiriRun, String>)>>> = Arc::new(Mutex::new(vec![]));
    let cases = Arc::new(cases);
    let mut hs = vec![];
    for _ in 0..jobs {
        let (queue, results, cases, dir) = (queue.clone(), results.clone(), cases.clone(), dir.clone());
        let seed = cfg.seed;
        hs.push(std::thread::spawn(move || loop {
            let Some((bi, batch)) = queue.lock().unwrap().pop() else { break };
            let args: Vec<String> = batch.iter().map(|&i| format!("{}:{}", cases[i].0, crate::choices::hex(&cases[i].3))).collect();
            let miri_seed = crate::choices::fnv(format!("{}|miri|{}", seed, bi).as_bytes()) & 0xFFFF_FFFF;
            let mm = if bi % 2 == 0 { MiriMode::AliasingNoLocations } else { MiriMode::LocationsNoAliasing };
            let r = miri_run(&dir, mm, miri_seed, &args, 900);
            results.lock().unwrap().push((batch, miri_seed, mm, r));
        }));
    }
    for h in hs {
        let _ = h.join();
    }
    let results = std::mem::take(&mut *results.lock().unwrap());
    let mut timeouts = 0;
    for (batch, miri_seed, mm, r) in results {
        let r = match r {
            Ok(r) => r,
            Err(e) => {
                rep.inconclusive = Some(format!("Miri batch could not be started: {}", e));
                continue;
            }
        };
        let mut done = 0usize;
        let mut current: Option<usize> = None;
        let mut oracle_fail: Option<(usize, String, String)> = None;
        for l in r.stdout.lines() {
            if let Some(n) = l.strip_prefix("START ") {
                current = n.trim().parse().ok();
            } else if let Some(rest) = l.strip_prefix("OK ") {
                let f: Vec<&str> = rest.split('\t').collect();
                done += 1;
                rep.evaluations += 1;
                let bi: usize = f[0].parse().unwrap_or(0);
                let ci = batch[bi.min(batch.len() - 1)];
                let nt = f.get(1) == Some(&"1");
                if nt {
                    rep.nontrivial_keys.insert(crate::choices::fnv(&cases[ci].3) ^ 0x4D49_5249);
                }
                *rep.classes.entry(format!("miri/{}/{}{}", if mm == MiriMode::AliasingNoLocations { "aliasing-no-locations" } else { "locations-no-aliasing" }, if cases[ci].0 == "t" { "threaded" } else { "single" }, if nt { "/clone-drop-readback" } else { "/other" })).or_insert(0) += 1;
                current = None;
            } else if let Some(rest) = l.strip_prefix("FAIL ") {
                let mut it = rest.splitn(3, '\t');
                let bi: usize = it.next().and_then(|s| s.parse().ok()).unwrap_or(0);
                oracle_fail = Some((batch[bi.min(batch.len() - 1)], it.next().unwrap_or("").to_string(), it.next().unwrap_or("").to_string()));
                current = None;
            }
        }
        let _ = done;
        let mk_failure = |ci: usize, sig: String, detail: String| -> Failure {
            let (mode, _, index, bytes) = &cases[ci];
            let o = if *mode == "t" { run_threaded(bytes, true, 2) } else { run_single(bytes, true) };
            Failure {
                stage: if *mode == "t" { "miri-threaded".into() } else { "miri-histories".into() },
                index: *index,
                bytes: Some(bytes.clone()),
                sig,
                detail: format!("[{:?}] {}\n(replay with VERIF_MIRI_SEED={})", mm, detail, miri_seed),
                rendered: o.trace,
                shrunk: false,
            }
        };
        if let Some((ci, sig, detail)) = oracle_fail {
            rep.failures.push(mk_failure(ci, sig, format!("model mismatch while running under Miri: {}", detail)));
        }
        if r.timed_out {
            timeouts += 1;
            continue;
        }
        if let Some((sig, detail)) = miri_error_sig(&r.stderr) {
            // attribute to the in-flight case (or, for a leak reported at exit, to the batch's first case)
            let ci = current.map(|bi| batch[bi.min(batch.len() - 1)]).unwrap_or(batch[0]);
            let f = mk_failure(ci, sig, detail);
            if !rep.failures.iter().any(|x| x.sig == f.sig) {
                rep.failures.push(f);
            }
        } else if r.status != Some(0) && !r.stdout.contains("DONE") {
            rep.inconclusive = Some(format!("a Miri batch ended with status {:?} without a Miri diagnostic: {}", r.status, crate::runner::truncate(r.stderr.trim(), 300)));
        }
    }
    if timeouts > 0 {
        rep.inconclusive = Some(format!("{} Miri batch(es) exceeded the 900 s wall-clock limit", timeouts));
    }
    rep.notes.push(format!("miri: {} histories interpreted ({} requested), total {:.0}s", rep.evaluations, total, t0.elapsed().as_secs_f64()));
    rep
}
