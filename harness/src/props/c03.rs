//! C03 The lexer implements the GraphQL lexical grammar.
use crate::apollo::lex;
use crate::choices::Choices;
use crate::gen::text;
use crate::refmodel::lexer::{lex_all, lex_at, K};
use crate::runner::{Ctx, Outcome, Prop, Tier};
use apollo_parser::TokenKind as T;

pub fn prop() -> Prop {
    Prop::new(
        "C03",
        "The lexer implements the GraphQL lexical grammar",
        "Cases: strings over a weighted lexical alphabet interleaved with number/string/block-string \
         lexeme attempts (valid and invalid), decoded from a proptest byte vector. Oracle: independent \
         transcription of the October 2021 lexical grammar. Non-trivial: the input contains a number, \
         string or block string AND apollo yields at least two items besides EOF; distinct by input text.",
    )
    .random(
        "lex-soup",
        check,
        |t| if t == Tier::Quick { 5_000_000 } else { 60_000_000 },
        |t| if t == Tier::Quick { 160 } else { 400 },
    )
    .text(check_text)
    .assumptions(&[
        "C0 control characters other than TAB/LF/CR are never generated: October 2021 SourceCharacter excludes them while apollo accepts them",
        "runs of WhiteSpace/LineTerminator/BOM are one Whitespace token, as TokenKind documents",
        "documented exception encoded: \\u{...} and surrogate \\uD800-\\uDFFF escapes are errors",
    ])
}

pub fn map_kind(k: T) -> K {
    match k {
        T::Whitespace => K::Whitespace,
        T::Comment => K::Comment,
        T::Bang => K::Bang,
        T::Dollar => K::Dollar,
        T::Amp => K::Amp,
        T::Spread => K::Spread,
        T::Comma => K::Comma,
        T::Colon => K::Colon,
        T::Eq => K::Eq,
        T::At => K::At,
        T::LParen => K::LParen,
        T::RParen => K::RParen,
        T::LBracket => K::LBracket,
        T::RBracket => K::RBracket,
        T::LCurly => K::LCurly,
        T::RCurly => K::RCurly,
        T::Pipe => K::Pipe,
        T::Eof => K::Eof,
        T::Name => K::Name,
        T::StringValue => K::Str,
        T::Int => K::Int,
        T::Float => K::Float,
    }
}

pub fn gen_input(c: &mut Choices, tier: Tier) -> String {
    let max = if tier == Tier::Quick { 24 } else { 60 };
    match c.weighted(&[60, 15, 15, 10]) {
        0 => text::lex_soup(c, max),
        1 => text::token_soup(c, max),
        2 => {
            // one lexeme attempt with neighbours: boundary behaviour
            let mut s = String::new();
            s.push_str(c.pick(&["", " ", "a", "1", "\"", ".", "-"]));
            if c.coin() {
                s.push_str(&text::number_attempt(c))
            } else {
                s.push_str(&text::string_attempt(c))
            }
            s.push_str(c.pick(&["", " ", "a", "1", "\"", ".", "-", "e", "\n"]));
            s
        }
        _ => text::unicode(c, max, false),
    }
}

pub fn check_text(src: &str, ctx: &mut Ctx) -> Outcome {
    let (items, overflow) = lex::items(src, None, src.len() + 3);
    if overflow {
        return Outcome::fail(
            "C03|non-termination|more-items-than-bytes",
            format!("lexer yielded more than len+2 items for {:?}", src),
        );
    }
    // (1) contiguity, concatenation, single trailing Eof
    let mut at = 0usize;
    let n = items.len();
    if n == 0 {
        return Outcome::fail("C03|no-eof", "lexer yielded nothing");
    }
    for (i, it) in items.iter().enumerate() {
        let last = i + 1 == n;
        if it.ok && it.kind == Some(T::Eof) {
            if !last {
                return Outcome::fail("C03|eof-not-last", format!("Eof at item {} of {}", i, n));
            }
            if it.start != src.len() || it.len != 0 {
                return Outcome::fail(
                    "C03|eof-position",
                    format!("Eof at {} len {} for input of {} bytes", it.start, it.len, src.len()),
                );
            }
            if at != src.len() {
                return Outcome::fail("C03|gap", format!("items end at {} but input has {} bytes", at, src.len()));
            }
            continue;
        }
        if last {
            return Outcome::fail("C03|no-eof", "last item is not Eof");
        }
        if it.start != at {
            return Outcome::fail(
                if it.ok { "C03|not-contiguous|token" } else { "C03|not-contiguous|error" },
                format!("item {} starts at {} but previous ended at {} ({:?}) in {:?}", i, it.start, at, it, src),
            );
        }
        if it.len == 0 {
            return Outcome::fail("C03|empty-item", format!("item {} is empty: {:?} in {:?}", i, it, src));
        }
        if it.start + it.len > src.len() || !src.is_char_boundary(it.start + it.len) {
            return Outcome::fail("C03|bad-range", format!("item {} ends off a char boundary: {:?}", i, it));
        }
        at = it.start + it.len;
    }
    // (2) per-item agreement with the reference at the same offset
    let mut has_lexeme = false;
    for it in &items {
        if it.ok && it.kind == Some(T::Eof) {
            break;
        }
        let r = lex_at(src, it.start);
        if it.ok {
            let k = map_kind(it.kind.unwrap());
            match r {
                Ok(t) => {
                    let rk = if t.kind == K::BlockStr { K::Str } else { t.kind };
                    if rk != k {
                        return Outcome::fail(
                            format!("C03|kind|{:?}-vs-{:?}", k, rk),
                            format!("at {}: apollo {:?}, reference {:?} in {:?}", it.start, it, t, src),
                        );
                    }
                    if t.end - t.start != it.len {
                        return Outcome::fail(
                            format!("C03|length|{:?}", k),
                            format!("at {}: apollo len {}, reference {:?} in {:?}", it.start, it.len, t, src),
                        );
                    }
                    if matches!(t.kind, K::Int | K::Float | K::Str | K::BlockStr) {
                        has_lexeme = true;
                    }
                }
                Err(why) => {
                    return Outcome::fail(
                        format!("C03|accepts|{:?}|{}", k, why),
                        format!("at {}: apollo token {:?} but reference rejects ({}) in {:?}", it.start, it, why, src),
                    );
                }
            }
        } else if let Ok(t) = r {
            return Outcome::fail(
                format!("C03|rejects|{:?}", t.kind),
                format!("at {}: apollo error {:?} but reference lexes {:?} in {:?}", it.start, it, t, src),
            );
        } else {
            has_lexeme |= src[it.start..].starts_with(|c: char| c == '"' || c == '-' || c.is_ascii_digit());
        }
    }
    // (3) no error <=> reference lexes the whole input
    let apollo_clean = items.iter().all(|i| i.ok);
    let ref_clean = lex_all(src).is_ok();
    if apollo_clean != ref_clean {
        return Outcome::fail(
            if apollo_clean { "C03|whole|accepts" } else { "C03|whole|rejects" },
            format!("apollo clean={}, reference clean={} for {:?}", apollo_clean, ref_clean, src),
        );
    }
    ctx.nontrivial = has_lexeme && n >= 3;
    ctx.class(if apollo_clean { "clean" } else { "with-errors" });
    Outcome::Pass
}

pub fn check(bytes: &[u8], ctx: &mut Ctx) -> Outcome {
    let mut c = Choices::new(bytes);
    let src = gen_input(&mut c, ctx.tier);
    ctx.set_sample(format!("{:?}", src));
    check_text(&src, ctx)
}
