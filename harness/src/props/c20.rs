//! C20 Validating without a schema is a relaxation.
use super::c17::{self, SEP};
use crate::choices::Choices;
use crate::refmodel::printer::print_document;
use crate::runner::{Ctx, Outcome, Prop, Tier};
use apollo_compiler::ExecutableDocument;

pub fn prop() -> Prop {
    Prop::new(
        "C20",
        "Validating without a schema is a relaxation",
        "Cases: C17's stream of schema + executable document pairs (valid by construction, then 0-2 mutators, many of \
         them validity preserving); only pairs that apollo validates against the schema are evaluated, the others are \
         counted as skipped. Oracle (implication): ast::Document::parse(text) + validate_standalone_executable() must \
         be Ok. One signature per diagnostic kind reported without a schema. Non-trivial: the document uses a \
         directive or a variable; distinct by the two texts.",
    )
    .random("pairs", check, |t| if t == Tier::Quick { 100_000 } else { 1_500_000 }, |t| if t == Tier::Quick { 700 } else { 1000 })
    .text(check_text)
    .assumptions(&["the antecedent is apollo's own verdict with the schema (ExecutableDocument::parse_and_validate is Ok); the property is an implication between two apollo entry points"])
}

pub fn check_pair(schema_text: &str, doc_text: &str, label: &str, ctx: &mut Ctx) -> Outcome {
    let schema = match c17::apollo_schema(schema_text) {
        Ok(s) => s,
        Err(_) => return ctx.skip("apollo rejects the schema"),
    };
    if ExecutableDocument::parse_and_validate(&schema, doc_text, "q.graphql").is_err() {
        let _ = label;
        ctx.class("invalid-with-schema");
        return ctx.skip("document does not validate against the schema");
    }
    let uses_dir = doc_text.contains('@');
    let uses_var = doc_text.contains('$');
    ctx.nontrivial = uses_dir || uses_var;
    ctx.class(match (uses_dir, uses_var) {
        (true, true) => "valid|directives+variables",
        (true, false) => "valid|directives",
        (false, true) => "valid|variables",
        _ => "valid|plain",
    });
    let ast = match apollo_compiler::ast::Document::parse(doc_text, "q.graphql") {
        Ok(d) => d,
        Err(e) => {
            return Outcome::fail(
                "C20|standalone-rejects|parse",
                format!("ast::Document::parse fails on a text that validates with the schema:\n{}\n--- document\n{}", e.errors, doc_text),
            )
        }
    };
    match ast.validate_standalone_executable() {
        Ok(()) => Outcome::Pass,
        Err(errors) => {
            let kinds = c17::diagnostic_kinds(&errors, None);
            let fails = kinds
                .iter()
                .map(|k| {
                    (
                        format!("C20|standalone-rejects|{}", k),
                        format!("valid against its schema, but standalone validation reports:\n{}\n--- schema\n{}\n--- document\n{}", errors, schema_text, doc_text),
                    )
                })
                .collect();
            ctx.pick_failure(fails)
        }
    }
}

pub fn check_text(text: &str, ctx: &mut Ctx) -> Outcome {
    let (s, d) = c17::split_pair(text);
    ctx.set_sample(format!("{}{}{}", s, SEP, d));
    check_pair(&s, &d, "text", ctx)
}

pub fn check(bytes: &[u8], ctx: &mut Ctx) -> Outcome {
    let mut c = Choices::new(bytes);
    let case = c17::gen_case(&mut c, true);
    let schema_text = print_document(&case.schema_doc);
    let doc_text = print_document(&case.doc);
    let label = if case.mutators.is_empty() { "none".to_string() } else { case.mutators.join(",") };
    ctx.set_sample(format!("{}{}{}", schema_text, SEP, doc_text));
    check_pair(&schema_text, &doc_text, &label, ctx)
}
