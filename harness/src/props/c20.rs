//! C20 Validating without a schema is a relaxation.
use super::c17::{self, SEP};
use crate::choices::Choices;
use crate::refmodel::printer::print_document;
use crate::runner::{Ctx, Outcome, Prop, Tier};
use apollo_compiler::ExecutableDocument;

pub fn prop() -> Prop {
    Prop::new(
        "C20",
        "Validating without a schema is a relaxation",
        "Cases: C17's generator of schema + executable document pairs (valid by construction, then 0-2 validity-preserving \
         mutations; one case in six goes through C17's rule mutators instead); only pairs that BOTH apollo \
         (ExecutableDocument::parse_and_validate) and the reference validator (refmodel::execvalid) accept are evaluated, \
         the others are counted as skipped. Oracle (implication): ast::Document::parse(text) + validate_standalone_executable() must \
         be Ok. One signature per diagnostic kind reported without a schema. Non-trivial: the document uses a \
         directive or a variable; distinct by the two texts.",
    )
    .random("pairs", check, |t| if t == Tier::Quick { 180_000 } else { 2_000_000 }, |t| if t == Tier::Quick { 700 } else { 1000 })
    .text(check_text)
    .case_timeout(120)
    .assumptions(&["the antecedent is apollo's own verdict with the schema (ExecutableDocument::parse_and_validate is Ok) confirmed by the reference validator (Valid); the property is an implication between two apollo entry points"])
}

pub fn check_pair(schema_text: &str, doc_text: &str, label: &str, ctx: &mut Ctx) -> Outcome {
    let schema = match c17::apollo_schema(schema_text) {
        Ok(s) => s,
        Err(_) => return ctx.skip("apollo rejects the schema"),
    };
    if ExecutableDocument::parse_and_validate(&schema, doc_text, "q.graphql").is_err() {
        let _ = label;
        ctx.class("invalid-with-schema");
        return ctx.skip("document does not validate against the schema");
    }
    // the antecedent "validates against the schema" must hold for the reference too
    match c17::reference_verdict(schema_text, doc_text) {
        Ok((crate::refmodel::execvalid::Verdict::Valid, rs)) => {
            // what makes the antecedent depend on THIS schema: applications of built-in
            // directives that only the schema's own re-definition allows, shared fragments
            for c in c17::context_constructs(&rs, doc_text) {
                ctx.class(format!("ctx:{}", c));
            }
        }
        _ => {
            ctx.class("apollo-valid|reference-not-valid");
            return ctx.skip("apollo validates the document but the reference does not call it valid");
        }
    }
    let uses_dir = doc_text.contains('@');
    let uses_var = doc_text.contains('$');
    ctx.nontrivial = uses_dir || uses_var;
    ctx.class(match (uses_dir, uses_var) {
        (true, true) => "valid|directives+variables",
        (true, false) => "valid|directives",
        (false, true) => "valid|variables",
        _ => "valid|plain",
    });
    let ast = match apollo_compiler::ast::Document::parse(doc_text, "q.graphql") {
        Ok(d) => d,
        Err(e) => {
            return Outcome::fail(
                "C20|standalone-rejects|parse",
                format!("ast::Document::parse fails on a text that validates with the schema:\n{}\n--- document\n{}", e.errors, doc_text),
            )
        }
    };
    match ast.validate_standalone_executable() {
        Ok(()) => Outcome::Pass,
        Err(errors) => {
            let kinds = c17::diagnostic_kinds(&errors, None);
            let fails = kinds
                .iter()
                .map(|k| {
                    (
                        format!("C20|standalone-rejects|{}", k),
                        format!("valid against its schema, but standalone validation reports:\n{}\n--- schema\n{}\n--- document\n{}", errors, schema_text, doc_text),
                    )
                })
                .collect();
            ctx.pick_failure(fails)
        }
    }
}

pub fn check_text(text: &str, ctx: &mut Ctx) -> Outcome {
    let (s, d) = c17::split_pair(text);
    ctx.set_sample(format!("{}{}{}", s, SEP, d));
    check_pair(&s, &d, "text", ctx)
}

pub fn check(bytes: &[u8], ctx: &mut Ctx) -> Outcome {
    let mut c = Choices::new(bytes);
    // mostly valid documents (validity-preserving mutations); one case in six goes through the
    // rule mutators so that documents accepted through a disagreement with the reference are seen
    let mode = if c.bool(43) { c17::Mode::Rules } else { c17::Mode::Neutral };
    let case = c17::gen_case_mode(&mut c, mode);
    let schema_text = print_document(&case.schema_doc);
    let doc_text = print_document(&case.doc);
    let label = if case.mutators.is_empty() { "none".to_string() } else { case.mutators.join(",") };
    ctx.set_sample(format!("{}{}{}", schema_text, SEP, doc_text));
    check_pair(&schema_text, &doc_text, &label, ctx)
}
