//! C25 The introspection depth limit does not depend on fragments.
//!
//! Generator: introspection operations that are valid against ANY schema whose query root is
//! `Query` (they only use `__schema` / `__type` and the `__*` types), built from the four
//! list-valued fields, connector fields, leaves, inline fragments and a pool of named fragments
//! on `__Type` / `__Field` / `__InputValue` that are reused at several depths.
//!
//! Oracle 1: `introspection::check_max_depth` rejects  <=>  `refmodel::depth::must_reject`.
//! Oracle 2: the same selections with every named fragment inlined get the same apollo verdict.
//! Because the reference verdict of the twin equals the reference verdict of the original (the
//! reference expands fragments, checked here on every case), oracle 2 fails exactly when apollo
//! is wrong on precisely one of the two forms, so both oracles are reported as "apollo differs
//! from the reference on the original / on the inlined form".
use crate::apollo::introspect::{self as ap, DepthObs};
use crate::choices::Choices;
use crate::refmodel::ast::*;
use crate::refmodel::depth;
use crate::refmodel::parser::parse_document;
use crate::refmodel::printer::print_document;
use crate::runner::{Ctx, Outcome, Prop, Tier};
use apollo_compiler::validation::Valid;
use apollo_compiler::Schema;
use std::collections::BTreeMap;
use std::sync::OnceLock;

pub fn prop() -> Prop {
    Prop::new(
        "C25",
        "The introspection depth limit does not depend on fragments",
        "Cases: one introspection query (valid against `type Query { f: Int }`) over __schema/__type built from the \
         list fields fields/interfaces/possibleTypes/inputFields, connector fields (types, queryType, type, ofType, \
         args, enumValues, directives), leaves, aliases, inline fragments and 0..4 acyclic named fragments on \
         __Type/__Field/__InputValue, every fragment used. Oracle: check_max_depth rejects <=> the fully expanded \
         selections nest >= 3 list fields on some path; and the verdict equals the verdict of the twin with all named \
         fragments inlined. Non-trivial: some named fragment is spread at least twice in the expanded operation; \
         distinct by operation text.",
    )
    .random("ops", check, |t| if t == Tier::Quick { 1_200_000 } else { 6_000_000 }, |t| if t == Tier::Quick { 160 } else { 260 })
    .text(check_text)
    .assumptions(&[
        "the threshold (reject at three nested list fields) and the four counted fields are taken from the property statement and the repository's max-depth tests, not from the algorithm",
        "operations rejected by apollo's executable validation are skipped (none are expected; the skip counter shows it)",
    ])
}

fn test_schema() -> &'static Valid<Schema> {
    static S: OnceLock<Valid<Schema>> = OnceLock::new();
    S.get_or_init(|| ap::schema("type Query { f: Int }").expect("fixed schema is valid"))
}

// ------------------------------------------------------------------------------------------------
// Generator

#[derive(Clone, Copy, PartialEq, Eq, Debug)]
enum T {
    Schema,
    Type,
    Field,
    InputValue,
    Directive,
    EnumValue,
}

impl T {
    fn name(self) -> &'static str {
        match self {
            T::Schema => "__Schema",
            T::Type => "__Type",
            T::Field => "__Field",
            T::InputValue => "__InputValue",
            T::Directive => "__Directive",
            T::EnumValue => "__EnumValue",
        }
    }
}

struct G<'c, 'a> {
    c: &'c mut Choices<'a>,
    frag_types: Vec<T>,
    budget: usize,
    alias_n: usize,
}

fn leaf(name: &str) -> Selection {
    Selection::Field(Field { alias: None, name: name.into(), args: vec![], directives: vec![], selection_set: vec![] })
}

impl G<'_, '_> {
    /// A composite field; sometimes with a fresh (globally unique) alias, and only then with an
    /// `includeDeprecated` argument, so equal response keys always denote identical fields.
    fn composite(&mut self, name: &str, may_take_arg: bool, sels: Vec<Selection>) -> Selection {
        let mut f = Field { alias: None, name: name.into(), args: vec![], directives: vec![], selection_set: sels };
        if self.c.bool(50) {
            self.alias_n += 1;
            f.alias = Some(format!("a{}", self.alias_n));
            if may_take_arg && self.c.coin() {
                f.args.push(("includeDeprecated".into(), Value::Bool(self.c.coin())));
            }
        }
        Selection::Field(f)
    }

    fn spreadable(&self, t: T, min_frag: usize) -> Vec<usize> {
        (min_frag..self.frag_types.len()).filter(|&i| self.frag_types[i] == t).collect()
    }

    fn sels(&mut self, t: T, depth_left: usize, min_frag: usize) -> Vec<Selection> {
        let n = 1 + self.c.small(3);
        let mut out = Vec::new();
        for _ in 0..n {
            let s = self.sel(t, depth_left, min_frag);
            out.push(s);
        }
        out
    }

    fn sel(&mut self, t: T, depth_left: usize, min_frag: usize) -> Selection {
        let simple = depth_left == 0 || self.budget == 0;
        self.budget = self.budget.saturating_sub(1);
        let d = depth_left.saturating_sub(1);
        let spreads = self.spreadable(t, min_frag);
        // a spread is cheap and always possible where a fragment of the right type exists
        if !spreads.is_empty() && self.c.bool(if simple { 120 } else { 70 }) {
            let i = spreads[self.c.choose(spreads.len())];
            return Selection::Spread(FragmentSpread { name: format!("F{}", i), directives: vec![] });
        }
        match t {
            T::Type => {
                if simple {
                    return leaf(self.c.pick(&["name", "kind", "description", "specifiedByURL"]));
                }
                match self.c.weighted(&[12, 16, 12, 12, 12, 12, 6, 10]) {
                    0 => leaf(self.c.pick(&["name", "kind", "description"])),
                    1 => {
                        let s = self.sels(T::Field, d, min_frag);
                        self.composite("fields", true, s)
                    }
                    2 => {
                        let s = self.sels(T::Type, d, min_frag);
                        self.composite("interfaces", false, s)
                    }
                    3 => {
                        let s = self.sels(T::Type, d, min_frag);
                        self.composite("possibleTypes", false, s)
                    }
                    4 => {
                        let s = self.sels(T::InputValue, d, min_frag);
                        self.composite("inputFields", true, s)
                    }
                    5 => {
                        let s = self.sels(T::Type, d, min_frag);
                        self.composite("ofType", false, s)
                    }
                    6 => {
                        let s = self.sels(T::EnumValue, d, min_frag);
                        self.composite("enumValues", true, s)
                    }
                    _ => self.inline(t, d, min_frag),
                }
            }
            T::Field => {
                if simple {
                    return leaf(self.c.pick(&["name", "isDeprecated", "deprecationReason"]));
                }
                match self.c.weighted(&[15, 45, 25, 15]) {
                    0 => leaf(self.c.pick(&["name", "isDeprecated", "description"])),
                    1 => {
                        let s = self.sels(T::Type, d, min_frag);
                        self.composite("type", false, s)
                    }
                    2 => {
                        let s = self.sels(T::InputValue, d, min_frag);
                        self.composite("args", true, s)
                    }
                    _ => self.inline(t, d, min_frag),
                }
            }
            T::InputValue => {
                if simple {
                    return leaf(self.c.pick(&["name", "defaultValue", "isDeprecated"]));
                }
                match self.c.weighted(&[20, 60, 20]) {
                    0 => leaf(self.c.pick(&["name", "defaultValue", "description"])),
                    1 => {
                        let s = self.sels(T::Type, d, min_frag);
                        self.composite("type", false, s)
                    }
                    _ => self.inline(t, d, min_frag),
                }
            }
            T::Schema => {
                if simple {
                    return leaf("description");
                }
                match self.c.weighted(&[5, 50, 20, 15, 10]) {
                    0 => leaf("description"),
                    1 => {
                        let s = self.sels(T::Type, d, min_frag);
                        self.composite("types", false, s)
                    }
                    2 => {
                        let f = self.c.pick(&["queryType", "mutationType", "subscriptionType"]);
                        let s = self.sels(T::Type, d, min_frag);
                        self.composite(f, false, s)
                    }
                    3 => {
                        let s = self.sels(T::Directive, d, min_frag);
                        self.composite("directives", false, s)
                    }
                    _ => self.inline(t, d, min_frag),
                }
            }
            T::Directive => {
                if simple {
                    return leaf(self.c.pick(&["name", "isRepeatable", "locations"]));
                }
                match self.c.weighted(&[40, 60]) {
                    0 => leaf(self.c.pick(&["name", "isRepeatable", "locations"])),
                    _ => {
                        let s = self.sels(T::InputValue, d, min_frag);
                        self.composite("args", true, s)
                    }
                }
            }
            T::EnumValue => leaf(self.c.pick(&["name", "isDeprecated", "deprecationReason", "description"])),
        }
    }

    fn inline(&mut self, t: T, depth_left: usize, min_frag: usize) -> Selection {
        let tc = if self.c.bool(170) { Some(t.name().to_string()) } else { None };
        // an inline fragment does not use up nesting depth of the generator
        let s = self.sels(t, depth_left + 1, min_frag);
        Selection::Inline(InlineFragment { type_condition: tc, directives: vec![], selection_set: s })
    }

    fn root_field(&mut self, min_frag: usize, depth: usize) -> Selection {
        self.alias_n += 1;
        let alias = if self.c.bool(60) { Some(format!("a{}", self.alias_n)) } else { None };
        if self.c.bool(100) {
            let s = self.sels(T::Type, depth, min_frag);
            Selection::Field(Field { alias, name: "__type".into(), args: vec![("name".into(), Value::str("Query"))], directives: vec![], selection_set: s })
        } else {
            let s = self.sels(T::Schema, depth, min_frag);
            Selection::Field(Field { alias, name: "__schema".into(), args: vec![], directives: vec![], selection_set: s })
        }
    }
}

fn count_spreads(sels: &[Selection], frags: &BTreeMap<&str, &FragmentDef>, counts: &mut BTreeMap<String, usize>) {
    for s in sels {
        match s {
            Selection::Field(f) => count_spreads(&f.selection_set, frags, counts),
            Selection::Inline(i) => count_spreads(&i.selection_set, frags, counts),
            Selection::Spread(sp) => {
                *counts.entry(sp.name.clone()).or_insert(0) += 1;
                if let Some(d) = frags.get(sp.name.as_str()) {
                    count_spreads(&d.selection_set, frags, counts);
                }
            }
        }
    }
}

/// Spread counts per fragment in the EXPANDED operation (a fragment spread once inside a
/// fragment that is spread twice counts twice).
fn expanded_spread_counts(doc: &Document) -> BTreeMap<String, usize> {
    let frags = depth::fragments(doc);
    let mut counts = BTreeMap::new();
    if let Some(op) = depth::first_operation(doc) {
        count_spreads(&op.selection_set, &frags, &mut counts);
    }
    counts
}

pub fn gen_doc(c: &mut Choices, tier: Tier) -> Document {
    let k = c.weighted(&[10, 30, 30, 20, 10]);
    let mut frag_types = vec![];
    for _ in 0..k {
        frag_types.push(match c.weighted(&[60, 25, 15]) {
            0 => T::Type,
            1 => T::Field,
            _ => T::InputValue,
        });
    }
    let budget = if tier == Tier::Quick { 28 } else { 40 };
    let mut g = G { c, frag_types: frag_types.clone(), budget, alias_n: 0 };
    // operation first (so that an exhausted stream still yields an operation), then fragments;
    // fragment i may only spread fragments with a larger index: no cycles
    let n_roots = 1 + g.c.small(2);
    let mut roots = vec![];
    for _ in 0..n_roots {
        let depth = 2 + g.c.choose(4);
        let r = g.root_field(0, depth);
        roots.push(r);
    }
    let mut frag_defs: Vec<Option<FragmentDef>> = vec![];
    for i in 0..k {
        g.budget = g.budget.max(6);
        let depth = 1 + g.c.choose(3);
        let s = g.sels(frag_types[i], depth, i + 1);
        frag_defs.push(Some(FragmentDef { name: format!("F{}", i), type_condition: frag_types[i].name().into(), directives: vec![], selection_set: s }));
    }
    // every fragment must be used: unused ones (ascending, so a newly attached fragment makes the
    // fragments it spreads used) are either attached under an extra root field or dropped
    for i in 0..k {
        let doc_now = assemble(&roots, &frag_defs, false);
        let used = expanded_spread_counts(&doc_now);
        if used.contains_key(&format!("F{}", i)) {
            continue;
        }
        match g.c.choose(3) {
            0 => frag_defs[i] = None,
            pos => {
                let spread = Selection::Spread(FragmentSpread { name: format!("F{}", i), directives: vec![] });
                let inner = match frag_types[i] {
                    T::Type => vec![spread],
                    T::Field => vec![Selection::Field(Field { alias: None, name: "fields".into(), args: vec![], directives: vec![], selection_set: vec![spread] })],
                    _ => vec![Selection::Field(Field { alias: None, name: "inputFields".into(), args: vec![], directives: vec![], selection_set: vec![spread] })],
                };
                let f = Selection::Field(Field {
                    alias: Some(format!("u{}", i)),
                    name: "__type".into(),
                    args: vec![("name".into(), Value::str("Query"))],
                    directives: vec![],
                    selection_set: inner,
                });
                if pos == 1 {
                    roots.push(f);
                } else {
                    roots.insert(0, f);
                }
            }
        }
    }
    let wrap = g.c.bool(40);
    assemble(&roots, &frag_defs, wrap)
}

fn assemble(roots: &[Selection], frags: &[Option<FragmentDef>], wrap_root: bool) -> Document {
    let sels = if wrap_root {
        vec![Selection::Inline(InlineFragment { type_condition: Some("Query".into()), directives: vec![], selection_set: roots.to_vec() })]
    } else {
        roots.to_vec()
    };
    let mut defs = vec![Definition::Operation(OperationDef { op: OpType::Query, shorthand: true, name: None, vars: vec![], directives: vec![], selection_set: sels })];
    for f in frags.iter().flatten() {
        defs.push(Definition::Fragment(f.clone()));
    }
    Document { defs }
}

// ------------------------------------------------------------------------------------------------
// Diagnostic model of apollo's memoising algorithm (ONLY used to name the root cause in the
// signature of a failure that the independent reference has already established).

fn sim(
    sels: &[Selection],
    frags: &BTreeMap<&str, &FragmentDef>,
    memo: &mut BTreeMap<String, u32>,
    depth_so_far: u32,
    fix_threshold: bool,
    fix_propagation: bool,
) -> Result<u32, ()> {
    let mut max = depth_so_far;
    for s in sels {
        match s {
            Selection::Inline(i) => max = max.max(sim(&i.selection_set, frags, memo, depth_so_far, fix_threshold, fix_propagation)?),
            Selection::Spread(sp) => {
                let Some(def) = frags.get(sp.name.as_str()) else { continue };
                if let Some(&fd) = memo.get(&sp.name) {
                    let total = depth_so_far + fd;
                    let over = if fix_threshold { total >= 3 } else { total > 3 };
                    if over {
                        return Err(());
                    }
                    if fix_propagation {
                        max = max.max(total);
                    }
                } else {
                    let post = sim(&def.selection_set, frags, memo, depth_so_far, fix_threshold, fix_propagation)?;
                    memo.insert(sp.name.clone(), post - depth_so_far);
                    max = max.max(post);
                }
            }
            Selection::Field(f) => {
                let mut d = depth_so_far;
                if depth::is_list_field(&f.name) {
                    d += 1;
                    if d >= 3 {
                        return Err(());
                    }
                }
                max = max.max(sim(&f.selection_set, frags, memo, d, fix_threshold, fix_propagation)?);
            }
        }
    }
    Ok(max)
}

fn sim_rejects(doc: &Document, fix_threshold: bool, fix_propagation: bool) -> bool {
    let frags = depth::fragments(doc);
    let Some(op) = depth::first_operation(doc) else { return false };
    sim(&op.selection_set, &frags, &mut BTreeMap::new(), 0, fix_threshold, fix_propagation).is_err()
}

/// Which repair of the memoised fragment path would make the verdict right?
fn root_cause(doc: &Document, apollo_rejects: bool, must_reject: bool) -> &'static str {
    if sim_rejects(doc, false, false) != apollo_rejects {
        return "unexplained";
    }
    if sim_rejects(doc, true, false) == must_reject {
        // `depth_so_far + fragment_depth > MAX` where the direct path tests `>= MAX`
        "memo-threshold"
    } else if sim_rejects(doc, true, true) == must_reject {
        // a memo hit does not raise the depth reported for the enclosing fragment
        "memo-hit-depth-not-propagated"
    } else {
        "unexplained"
    }
}

// ------------------------------------------------------------------------------------------------
// Check

fn verdict_word(rejects: bool) -> &'static str {
    if rejects {
        "rejects"
    } else {
        "accepts"
    }
}

pub fn evaluate(doc: &Document, ctx: &mut Ctx) -> Outcome {
    let text = print_document(doc);
    ctx.set_sample(text.trim_end().replace('\n', " "));
    let Some(op) = depth::first_operation(doc) else {
        return Outcome::fail("C25|harness|no-operation", text);
    };
    let nesting = match depth::max_list_nesting(doc, op) {
        Ok(n) => n,
        Err(e) => return Outcome::fail("C25|harness|reference-cannot-expand", format!("{:?} in {}", e, text)),
    };
    let must_reject = nesting >= depth::REJECT_AT;
    let twin = depth::inlined_twin(doc, op).expect("expanded above");
    let twin_text = print_document(&twin);
    // the reference does not depend on fragments (sanity of the harness itself)
    let twin_nesting = depth::max_list_nesting(&twin, depth::first_operation(&twin).unwrap()).unwrap();
    assert_eq!(twin_nesting, nesting, "reference verdict changed by inlining: {text}");

    let counts = expanded_spread_counts(doc);
    let max_reuse = counts.values().copied().max().unwrap_or(0);
    ctx.nontrivial = max_reuse >= 2;
    ctx.class(format!("nesting={}{}", nesting.min(5), if nesting > 5 { "+" } else { "" }));
    ctx.class(match max_reuse {
        0 => "no-fragments",
        1 => "fragments-used-once",
        2 => "fragment-reused-2x",
        _ => "fragment-reused-3x+",
    });
    let has_frags = max_reuse > 0;

    let schema = test_schema();
    let a_orig = match ap::check_max_depth(schema, &text) {
        DepthObs::Verdict { ok, .. } => !ok,
        DepthObs::Invalid(e) => {
            if ctx.strict {
                eprintln!("operation rejected by validation: {}\n{}", text, e);
            }
            return ctx.skip("generated operation rejected by apollo validation");
        }
        DepthObs::NoOperation => return ctx.skip("apollo finds no anonymous operation"),
    };
    let a_twin = if has_frags {
        match ap::check_max_depth(schema, &twin_text) {
            DepthObs::Verdict { ok, .. } => !ok,
            DepthObs::Invalid(e) => {
                if ctx.strict {
                    eprintln!("inlined twin rejected by validation: {}\n{}", twin_text, e);
                }
                return ctx.skip("inlined twin rejected by apollo validation");
            }
            DepthObs::NoOperation => return ctx.skip("apollo finds no anonymous operation"),
        }
    } else {
        a_orig
    };
    ctx.sub_evals += if has_frags { 2 } else { 1 };
    ctx.class(if must_reject { "must-reject" } else { "must-accept" });

    let mut fails: Vec<(String, String)> = vec![];
    if a_orig != must_reject {
        let cause = if has_frags { root_cause(doc, a_orig, must_reject) } else { "direct-path" };
        fails.push((
            format!("C25|{}|{}", verdict_word(a_orig), cause),
            format!(
                "check_max_depth {} the operation, but its expanded selections nest {} list fields on one path (reject at {}); the same selections with named fragments inlined: apollo {}. operation: {} || inlined: {}",
                verdict_word(a_orig),
                nesting,
                depth::REJECT_AT,
                verdict_word(a_twin),
                text.trim_end().replace('\n', " "),
                twin_text.trim_end()
            ),
        ));
    }
    if has_frags && a_twin != must_reject {
        fails.push((
            format!("C25|inlined-{}|direct-path", verdict_word(a_twin)),
            format!(
                "check_max_depth {} the fragment-free form, which nests {} list fields on one path (reject at {}): {}",
                verdict_word(a_twin),
                nesting,
                depth::REJECT_AT,
                twin_text.trim_end()
            ),
        ));
    }
    if fails.is_empty() && a_orig != a_twin {
        // unreachable while the reference verdicts of both forms agree; kept as the literal oracle 2
        fails.push(("C25|twin-differs".into(), format!("apollo {} the operation but {} its inlined twin: {} || {}", verdict_word(a_orig), verdict_word(a_twin), text, twin_text)));
    }
    ctx.pick_failure(fails)
}

pub fn check(bytes: &[u8], ctx: &mut Ctx) -> Outcome {
    let mut c = Choices::new(bytes);
    let doc = gen_doc(&mut c, ctx.tier);
    evaluate(&doc, ctx)
}

/// Replay of `{"text": "<operation>"}` files.
pub fn check_text(text: &str, ctx: &mut Ctx) -> Outcome {
    match parse_document(text) {
        Ok(doc) => evaluate(&doc, ctx),
        Err(e) => Outcome::fail("C25|repro|unparseable", format!("{:?}", e)),
    }
}

#[cfg(test)]
mod tests {
    use super::*;
    #[test]
    fn generated_operations_are_valid_and_fragments_all_used() {
        let mut seed = 99u64;
        let mut reused = 0;
        for i in 0..4000usize {
            let bytes: Vec<u8> = (0..(i % 200))
                .map(|_| {
                    seed = seed.wrapping_mul(6364136223846793005).wrapping_add(1442695040888963407);
                    (seed >> 33) as u8
                })
                .collect();
            let mut c = Choices::new(&bytes);
            let doc = gen_doc(&mut c, Tier::Quick);
            let text = print_document(&doc);
            assert_eq!(parse_document(&text).unwrap(), doc, "{text}");
            let counts = expanded_spread_counts(&doc);
            for d in &doc.defs {
                if let Definition::Fragment(f) = d {
                    assert!(counts.contains_key(&f.name), "unused fragment in {text}");
                }
            }
            if counts.values().any(|&n| n >= 2) {
                reused += 1;
            }
            match ap::check_max_depth(test_schema(), &text) {
                DepthObs::Verdict { .. } => {}
                other => panic!("{text}\n{other:?}"),
            }
        }
        assert!(reused > 400, "only {reused} cases reuse a fragment");
    }
}
