//! C01 Parsing never panics, hangs or overflows the stack.
//! C02 The document syntax tree is lossless. (shared text domain)
use crate::apollo::parse::{self, Entry};
use crate::choices::Choices;
use crate::gen::{syntax, text};
use crate::refmodel::printer;
use crate::runner::{catch, normalise_panic, Ctx, Outcome, Prop, Tier};
use std::sync::OnceLock;

pub fn prop() -> Prop {
    Prop::new(
        "C01",
        "Parsing never panics, hangs or overflows the stack",
        "Cases: (text, token limit, recursion limit) with text from five sources (arbitrary Unicode; token soup; \
         generated grammatical documents with token/char mutations and truncation; deep-nesting templates up to \
         depth 1200; repository test_data files mutated) run through Lexer, the three apollo-parser entry points and \
         the compiler's Document/Schema/ExecutableDocument/Type/FieldSet/mixed parse functions on a 2 MiB-stack \
         thread in a child process. Oracle: every call returns, the tree is fully traversable, no panic/abort/signal, \
         lexer yields at most len+2 items; non-progress is a deterministic debug-assertion panic. Non-trivial: the \
         input has a lexer or parser error, or nesting at/over the recursion limit, or a token limit below the token \
         count; distinct by (text, limits).",
    )
    .random(
        "texts",
        check,
        |t| if t == Tier::Quick { 600_000 } else { 6_000_000 },
        |t| if t == Tier::Quick { 300 } else { 700 },
    )
    .text(check_plain_text)
    .assumptions(&[
        "stack: 2 MiB per thread (Rust's default for spawned threads)",
        "recursion limits above the default 500 are combined only with inputs nested at most 400 deep (the documented default sizing covers that)",
        "a hang is reported as INCONCLUSIVE by the watchdog, never as a violation; the deterministic progress oracles are the parser's debug assertions (enabled in the harness build)",
    ])
}

pub struct Case {
    pub text: String,
    pub token_limit: Option<usize>,
    pub recursion_limit: Option<usize>,
    pub source: &'static str,
    pub nesting: usize,
}

pub fn gen_text(c: &mut Choices, tier: Tier) -> (String, &'static str, usize) {
    let big = tier == Tier::Thorough;
    match c.weighted(&[14, 18, 30, 14, 14, 10]) {
        0 => (text::unicode(c, if big { 80 } else { 40 }, true), "unicode", 0),
        1 => (text::token_soup(c, if big { 80 } else { 40 }), "token-soup", 0),
        2 => {
            let d = syntax::document(c, &syntax::Cfg::default());
            let mut toks = printer::doc_tokens(&d);
            let kind = c.weighted(&[30, 40, 15, 15]);
            let mut s;
            match kind {
                0 => {
                    s = printer::join_random(&toks, c);
                }
                1 => {
                    syntax::mutate_tokens(c, &mut toks, 3);
                    s = printer::join_random(&toks, c);
                }
                2 => {
                    s = printer::join_plain(&toks);
                    s = text::mutate_text(c, &s, 3);
                }
                _ => {
                    // truncation at an arbitrary char offset
                    s = printer::join_plain(&toks);
                    let n = s.chars().count();
                    let k = c.choose(n.max(1).min(65535));
                    s = s.chars().take(k).collect();
                }
            }
            (s, "document", 0)
        }
        3 => {
            let _ = big;
            let max = if c.bool(200) { 1200 } else { 40 };
            let (s, n) = text::nesting(c, max);
            (s, "nesting", n)
        }
        4 => {
            let files = text::corpus_files();
            if files.is_empty() {
                return (text::token_soup(c, 30), "token-soup", 0);
            }
            let f = &files[c.choose(files.len().min(65535))];
            let s = if c.bool(60) { f.clone() } else { text::mutate_text(c, f, 4) };
            (s, "corpus", 0)
        }
        _ => {
            // special cases always present
            let s = c.pick(&[
                "", " ", "\n", ",", "#", "# only a comment", "\u{FEFF}", "é", "\u{0}", "\"", "\"\"\"", "...", ".", "-", "0", "!", "[", "{", "}", "]",
                "a", "$", "@", "[!]", "[a", "{a", "a}", "...a", "... on", "type", "extend", "\"d\"", "\"\"\"d\"\"\" type", "[[[", "a!", "!a", "🚀{",
                "{🚀", "[🚀]", "a 🚀", "{ a(x: 🚀) }", "query($a:", "(", ")", ":", "=", "|", "&",
            ]);
            (s.to_string(), "special", 0)
        }
    }
}

pub fn gen_case(c: &mut Choices, tier: Tier) -> Case {
    let (text, source, nesting) = gen_text(c, tier);
    // limits
    let token_limit = match c.weighted(&[50, 8, 8, 8, 26]) {
        0 => None,
        1 => Some(0),
        2 => Some(1),
        3 => Some(2),
        _ => Some(c.range(0, text.len().min(2000) + 2)),
    };
    // Raised limits (> default 500) only with inputs known to nest at most 400 deep: generated
    // documents (depth ≤ 12), short soups (≤ 80 tokens), specials, templates with n ≤ 400.
    let shallow = match source {
        "nesting" => nesting <= 400,
        "corpus" => false,
        _ => true,
    };
    let recursion_limit = match c.weighted(&[40, 6, 6, 6, 6, 12, 12, 12]) {
        0 => None,
        1 => Some(0),
        2 => Some(1),
        3 => Some(2),
        4 => Some(3),
        5 => Some(c.range(4, 60)),
        6 => Some(c.range(495, 500)),
        _ => {
            if shallow {
                Some(c.pick(&[501usize, 750, 1000, 4096, usize::MAX]))
            } else {
                Some(c.range(61, 500))
            }
        }
    };
    Case { text, token_limit, recursion_limit, source, nesting }
}

fn fixed_schema() -> &'static apollo_compiler::validation::Valid<apollo_compiler::Schema> {
    static S: OnceLock<apollo_compiler::validation::Valid<apollo_compiler::Schema>> = OnceLock::new();
    S.get_or_init(|| {
        apollo_compiler::Schema::parse_and_validate(
            "type Query { a: T, b(x: Int): Int, f: [T] } type T { a: T, x: Int, id: ID } type Mutation { a: Int } type Subscription { a: Int }",
            "fixed.graphql",
        )
        .expect("fixed schema is valid")
    })
}

macro_rules! entry {
    ($fails:expr, $name:expr, $body:expr) => {
        if let Err((msg, loc)) = catch(|| $body) {
            $fails.push(($name, msg, loc));
        }
    };
}

/// Runs every entry point; returns every (entry, panic message, location) observed.
pub fn run_all(case: &Case, stats: &mut Stats) -> Vec<(&'static str, String, String)> {
    let mut fails: Vec<(&'static str, String, String)> = vec![];
    let src = case.text.as_str();
    let tl = case.token_limit;
    let rl = case.recursion_limit;
    // Lexer (iterator and lex())
    let mut lexer_problem: Option<String> = None;
    entry!(fails, "Lexer", {
        let (items, overflow) = crate::apollo::lex::items(src, tl, src.len() + 3);
        if overflow {
            lexer_problem = Some(format!("lexer yielded more than len+2 items ({} bytes)", src.len()));
        }
        stats.lexer_errors = items.iter().filter(|i| !i.ok && !i.limit).count();
        stats.tokens = items.len();
        let mut lx = apollo_parser::Lexer::new(src);
        if let Some(l) = tl {
            lx = lx.with_limit(l);
        }
        let _ = lx.lex();
    });
    if let Some(p) = lexer_problem {
        fails.push(("Lexer", format!("non-termination: {}", p), "lexer".into()));
        return fails;
    }
    for e in Entry::ALL {
        let mut walk_problem = None;
        entry!(fails, e.name(), {
            let p = parse::parse(e, src, tl, rl);
            let w = parse::walk(&p.root, src);
            let _ = p.root.text().to_string();
            if e == Entry::Document {
                stats.parser_errors = p.errors.iter().filter(|x| !x.is_limit).count();
                stats.limit_errors = p.errors.iter().filter(|x| x.is_limit).count();
                stats.recursion_high = p.recursion_high;
            }
            // trackers usable and sane
            if p.recursion_high > p.recursion_limit.saturating_add(1) {
                walk_problem = Some(format!("recursion high {} exceeds limit {} + 1", p.recursion_high, p.recursion_limit));
            }
            let _ = w;
        });
        if let Some(p) = walk_problem {
            fails.push((e.name(), format!("tracker: {}", p), "limit".into()));
        }
    }
    // compiler entry points
    let mk = || {
        let mut p = apollo_compiler::parser::Parser::new();
        if let Some(t) = tl {
            p = p.token_limit(t);
        }
        if let Some(r) = rl {
            p = p.recursion_limit(r);
        }
        p
    };
    entry!(fails, "ast::Document::parse", {
        let r = mk().parse_ast(src, "doc.graphql");
        match r {
            Ok(d) => {
                let _ = d.definitions.len();
            }
            Err(e) => {
                let _ = e.partial.definitions.len();
                let _ = e.errors.len();
            }
        }
    });
    entry!(fails, "Schema::parse", {
        let r = mk().parse_schema(src, "schema.graphql");
        match r {
            Ok(s) => {
                let _ = s.types.len();
            }
            Err(e) => {
                let _ = e.partial.types.len();
            }
        }
    });
    entry!(fails, "ExecutableDocument::parse", {
        let r = mk().parse_executable(fixed_schema(), src, "exec.graphql");
        match r {
            Ok(d) => {
                let _ = d.operations.len();
            }
            Err(e) => {
                let _ = e.partial.fragments.len();
            }
        }
    });
    entry!(fails, "ast::Type::parse", {
        let _ = mk().parse_type(src, "type.graphql");
    });
    entry!(fails, "FieldSet::parse", {
        let _ = mk().parse_field_set(fixed_schema(), apollo_compiler::name!("Query"), src, "fs.graphql");
    });
    entry!(fails, "parse_mixed_validate", {
        let _ = mk().parse_mixed_validate(src, "mixed.graphql");
    });
    fails
}

/// Root-cause signature of a panic: rowan's "exactly one root" assertion is classified by the
/// number of roots (none / several) instead of the raw count.
fn panic_sig(entry: &str, msg: &str, loc: &str) -> String {
    if loc.contains("rowan") && loc.contains("green/builder.rs") && msg.contains("left == right") {
        let left = msg.lines().find_map(|l| l.trim().strip_prefix("left:").map(|v| v.trim().to_string())).unwrap_or_default();
        let class = if left == "0" { "no-root" } else { "multiple-roots" };
        return format!("C01|panic|{}|rowan-finish|{}", entry, class);
    }
    format!("C01|panic|{}|{}", entry, normalise_panic(msg, loc))
}

#[derive(Default)]
pub struct Stats {
    pub lexer_errors: usize,
    pub parser_errors: usize,
    pub limit_errors: usize,
    pub recursion_high: usize,
    pub tokens: usize,
}

pub fn check_case(case: &Case, ctx: &mut Ctx) -> Outcome {
    let mut stats = Stats::default();
    let fails = run_all(case, &mut stats);
    ctx.class(case.source);
    if stats.lexer_errors > 0 {
        ctx.class("has-lexer-error");
    }
    if stats.parser_errors > 0 {
        ctx.class("has-parser-error");
    }
    if stats.limit_errors > 0 {
        ctx.class("limit-hit");
    }
    ctx.nontrivial = stats.lexer_errors > 0 || stats.parser_errors > 0 || stats.limit_errors > 0;
    let fails: Vec<(String, String)> = fails
        .into_iter()
        .map(|(entry, msg, loc)| {
            (
                panic_sig(entry, &msg, &loc),
                format!("{} panicked: {} at {} (token_limit={:?}, recursion_limit={:?})", entry, msg, loc, case.token_limit, case.recursion_limit),
            )
        })
        .collect();
    ctx.pick_failure(fails)
}

pub fn check(bytes: &[u8], ctx: &mut Ctx) -> Outcome {
    let mut c = Choices::new(bytes);
    let case = gen_case(&mut c, ctx.tier);
    ctx.set_sample(format!("tl={:?} rl={:?} text={:?}", case.token_limit, case.recursion_limit, crate::runner::truncate(&case.text, 300)));
    ctx.key = Some(crate::choices::fnv(format!("{:?}|{:?}|{}", case.token_limit, case.recursion_limit, case.text).as_bytes()));
    check_case(&case, ctx)
}

/// Replay of a raw text with default limits.
pub fn check_plain_text(text: &str, ctx: &mut Ctx) -> Outcome {
    let case = Case { text: text.to_string(), token_limit: None, recursion_limit: None, source: "replay", nesting: 0 };
    check_case(&case, ctx)
}
