//! C09 String values and descriptions survive serialization.
use crate::apollo::{astwalk, ser};
use crate::choices::Choices;
use crate::runner::{Ctx, Outcome, Prop, Tier};
use apollo_compiler::ast::*;
use apollo_compiler::{name, Node};

pub fn prop() -> Prop {
    Prop::new(
        "C09",
        "String values and descriptions survive serialization",
        "Cases: one arbitrary Unicode string (weighted towards quotes, backslashes, triple quotes, escaped triple \
         quotes, C0 controls, CR/LF/CRLF, leading/trailing spaces and tabs, common indentation, whitespace-only \
         lines, trailing quote/backslash, lengths around the line width, BOM, U+2028) placed PROGRAMMATICALLY (no \
         source text) into an ast::Document at 26 positions: schema/type/field/argument/enum-value/directive/input- \
         field descriptions, argument and variable default values, field and directive argument values, nested in \
         list and object values at depth 0-3; x serialization configuration. Oracle: serialize -> parse -> every \
         string read back at the same position is identical. Non-trivial: the string contains a quote, backslash, \
         control character or line terminator; distinct by (string, cfg).",
    )
    .random("strings", check, |t| if t == Tier::Quick { 2_000_000 } else { 10_000_000 }, |t| if t == Tier::Quick { 160 } else { 400 })
    .text(check_text_default)
}

const PIECES: &[&str] = &[
    "\"", "\\", "\"\"\"", "\\\"\"\"", "\"\"", "\n", "\r", "\r\n", " ", "  ", "\t", "    ", "a", "b", "word", "é", "中", "🚀", "\u{0}", "\u{1}",
    "\u{7}", "\u{8}", "\u{c}", "\u{1b}", "\u{7f}", "\u{85}", "\u{a0}", "\u{feff}", "\u{2028}", "\u{2029}", "\u{fffe}", "\u{ffff}", "\u{10ffff}",
    "\\n", "\\u0041", "\\\\", "#", ",", "{", "}", "$", "\n  ", "\n\t", "\n \n", " \n", "\n\n", "\\\"", "'",
];

pub fn gen_string(c: &mut Choices) -> String {
    let mut s = String::new();
    match c.weighted(&[70, 15, 15]) {
        0 => {
            let n = c.small(12);
            for _ in 0..n {
                s.push_str(c.pick(PIECES));
            }
        }
        1 => {
            // multi-line text with indentation structure (block-string candidates)
            let lines = 1 + c.small(5);
            for i in 0..lines {
                if i > 0 {
                    s.push_str(c.pick(&["\n", "\n", "\r\n", "\r"]));
                }
                let ind = c.small(5);
                for _ in 0..ind {
                    s.push(c.pick(&[' ', ' ', '\t']));
                }
                let w = c.small(4);
                for _ in 0..w {
                    s.push_str(c.pick(PIECES));
                }
            }
        }
        _ => {
            // long single line around typical wrap widths
            let n = c.range(60, 90);
            for i in 0..n {
                s.push(if i % 7 == 6 { ' ' } else { 'x' });
            }
            s.push_str(c.pick(PIECES));
        }
    }
    s
}

fn nest(c: &mut Choices, s: &str, depth: usize) -> Node<Value> {
    let mut v = Node::new(Value::String(s.to_string()));
    for _ in 0..depth {
        v = if c.coin() { Node::new(Value::List(vec![Node::new(Value::Int(1.into())), v])) } else { Node::new(Value::Object(vec![(name!("k"), v), (name!("z"), Node::new(Value::Null))])) };
    }
    v
}

pub fn build(c: &mut Choices, s: &str) -> Document {
    let d = |s: &str| Some(Node::new_str(s));
    let dir = |v: Node<Value>| DirectiveList(vec![Node::new(Directive { name: name!("d"), arguments: vec![Node::new(Argument { name: name!("x"), value: v })] })]);
    let string_ty = || Node::new(Type::Named(name!("String")));
    let depth = |c: &mut Choices| c.small(3);
    let mut ivd = |c: &mut Choices, n: apollo_compiler::Name| {
        let dd = depth(c);
        let dv = nest(c, s, dd);
        let dd2 = depth(c);
        let dirv = nest(c, s, dd2);
        Node::new(InputValueDefinition { description: d(s), name: n, ty: string_ty(), default_value: Some(dv), directives: dir(dirv) })
    };
    let mut doc = Document::new();
    let v0 = nest(c, s, 0);
    doc.definitions.push(Definition::SchemaDefinition(Node::new(SchemaDefinition {
        description: d(s),
        directives: dir(v0),
        root_operations: vec![Node::new((OperationType::Query, name!("Q")))],
    })));
    let a = ivd(c, name!("a"));
    let dd = depth(c);
    let fv = nest(c, s, dd);
    doc.definitions.push(Definition::ObjectTypeDefinition(Node::new(ObjectTypeDefinition {
        description: d(s),
        name: name!("Q"),
        implements_interfaces: vec![],
        directives: DirectiveList(vec![]),
        fields: vec![Node::new(FieldDefinition { description: d(s), name: name!("f"), arguments: vec![a], ty: Type::Named(name!("String")), directives: dir(fv) })],
    })));
    let dd = depth(c);
    let ev = nest(c, s, dd);
    doc.definitions.push(Definition::EnumTypeDefinition(Node::new(EnumTypeDefinition {
        description: d(s),
        name: name!("E"),
        directives: DirectiveList(vec![]),
        values: vec![Node::new(EnumValueDefinition { description: d(s), value: name!("V"), directives: dir(ev) })],
    })));
    let x = ivd(c, name!("x"));
    doc.definitions.push(Definition::DirectiveDefinition(Node::new(DirectiveDefinition {
        description: d(s),
        name: name!("d"),
        arguments: vec![x],
        repeatable: true,
        locations: vec![DirectiveLocation::Field, DirectiveLocation::FieldDefinition, DirectiveLocation::Schema, DirectiveLocation::EnumValue, DirectiveLocation::Query],
    })));
    let g = ivd(c, name!("g"));
    doc.definitions.push(Definition::InputObjectTypeDefinition(Node::new(InputObjectTypeDefinition { description: d(s), name: name!("I"), directives: DirectiveList(vec![]), fields: vec![g] })));
    doc.definitions.push(Definition::ScalarTypeDefinition(Node::new(ScalarTypeDefinition { description: d(s), name: name!("S"), directives: DirectiveList(vec![]) })));
    doc.definitions.push(Definition::UnionTypeDefinition(Node::new(UnionTypeDefinition { description: d(s), name: name!("U"), directives: DirectiveList(vec![]), members: vec![name!("Q")] })));
    doc.definitions.push(Definition::InterfaceTypeDefinition(Node::new(InterfaceTypeDefinition {
        description: d(s),
        name: name!("N"),
        implements_interfaces: vec![],
        directives: DirectiveList(vec![]),
        fields: vec![Node::new(FieldDefinition { description: d(s), name: name!("h"), arguments: vec![], ty: Type::Named(name!("Int")), directives: DirectiveList(vec![]) })],
    })));
    let dd = depth(c);
    let vd = nest(c, s, dd);
    let dd = depth(c);
    let av = nest(c, s, dd);
    let dd = depth(c);
    let qv = nest(c, s, dd);
    doc.definitions.push(Definition::OperationDefinition(Node::new(OperationDefinition {
        operation_type: OperationType::Query,
        name: Some(name!("Op")),
        variables: vec![Node::new(VariableDefinition { name: name!("v"), ty: string_ty(), default_value: Some(vd), directives: DirectiveList(vec![]) })],
        directives: dir(qv),
        selection_set: vec![Selection::Field(Node::new(Field { alias: None, name: name!("f"), arguments: vec![Node::new(Argument { name: name!("a"), value: av })], directives: DirectiveList(vec![]), selection_set: vec![] }))],
    })));
    doc
}

fn classify(s: &str) -> &'static str {
    if s.contains("\"\"\"") {
        "triple-quote"
    } else if s.chars().any(|c| (c as u32) < 0x20 && c != '\n' && c != '\r' && c != '\t') {
        "control"
    } else if s.contains('\n') || s.contains('\r') {
        "multi-line"
    } else if s.contains('"') || s.contains('\\') {
        "quote-or-backslash"
    } else {
        "plain"
    }
}

pub fn check_string(c: &mut Choices, s: &str, cfg: &ser::SerCfg, ctx: &mut Ctx) -> Outcome {
    let doc = build(c, s);
    let before = astwalk::collect_strings(&doc);
    if before.iter().any(|(_, v)| v != s) || before.len() != 26 {
        return Outcome::fail("C09|harness-bug", format!("built document carries {} strings", before.len()));
    }
    let text = ser::render(doc.serialize(), cfg);
    let back = match Document::parse(text.clone(), "c09.graphql") {
        Ok(b) => b,
        Err(e) => {
            return Outcome::fail(
                format!("C09|reparse-error|{}", classify(s)),
                format!("string {:?} with cfg {}: serialized document does not parse: {}\n{}", s, cfg.label(), e.errors, text),
            )
        }
    };
    let after = astwalk::collect_strings(&back);
    if after.len() != before.len() {
        return Outcome::fail(format!("C09|count|{}", classify(s)), format!("string {:?}: {} strings before, {} after\n{}", s, before.len(), after.len(), text));
    }
    for ((label, _), (label2, got)) in before.iter().zip(after.iter()) {
        if got != s || label != label2 {
            let kind = label.split(':').next().unwrap_or("");
            return Outcome::fail(
                format!("C09|changed|{}|{}", kind, classify(s)),
                format!("{} with cfg {}: wrote {:?}, read back {:?}\n--- serialized:\n{}", label, cfg.label(), s, got, text),
            );
        }
    }
    ctx.sub_evals += after.len() as u64;
    Outcome::Pass
}

fn check_text_default(s: &str, ctx: &mut Ctx) -> Outcome {
    let bytes = [200u8, 100, 50, 25, 220, 130, 90, 10, 250, 1, 77, 140, 33, 201, 99, 180];
    for cfg in [ser::SerCfg { indent: None, level: 0 }, ser::SerCfg { indent: Some(None), level: 1 }, ser::SerCfg { indent: Some(Some(" \t".into())), level: 3 }] {
        let mut c = Choices::new(&bytes);
        if let f @ Outcome::Fail { .. } = check_string(&mut c, s, &cfg, ctx) {
            return f;
        }
    }
    Outcome::Pass
}

pub fn check(bytes: &[u8], ctx: &mut Ctx) -> Outcome {
    let mut c = Choices::new(bytes);
    let cfg = ser::gen_cfg(&mut c);
    let s = gen_string(&mut c);
    ctx.class(classify(&s));
    ctx.class(match &cfg.indent { None => "cfg:default", Some(None) => "cfg:no_indent", Some(Some(_)) => "cfg:prefix" });
    ctx.nontrivial = classify(&s) != "plain";
    ctx.set_sample(format!("cfg={} string={:?}", cfg.label(), s));
    check_string(&mut c, &s, &cfg, ctx)
}
