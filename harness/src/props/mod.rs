//! One module per property: domain (generator), oracle, non-triviality classifier.
use crate::runner::Prop;

pub mod c01;
pub mod c02;
pub mod c03;
pub mod c12;
pub mod c13;

pub fn all() -> Vec<Prop> {
    vec![c01::prop(), c02::prop(), c03::prop(), c12::prop(), c13::prop()]
}

/// Auxiliary child entry points used by custom stages (`verif aux --prop ID ...`).
pub fn aux(id: &str, _args: &[String]) -> i32 {
    match id {
        _ => {
            eprintln!("no aux entry for {}", id);
            4
        }
    }
}
