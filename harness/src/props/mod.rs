//! One module per property: domain (generator), oracle, non-triviality classifier.
use crate::runner::Prop;

pub mod c01;
pub mod c02;
pub mod c03;
pub mod c04;
pub mod c05;
pub mod c06;
pub mod c07;
pub mod c08;
pub mod c09;
pub mod c10;
pub mod c11;
pub mod c12;
pub mod c13;
pub mod c14;
pub mod c15;
pub mod c16;
pub mod c21;
pub mod c23;
pub mod c24;
pub mod c25;
pub mod c26;
pub mod c27;
pub mod c28;
pub mod c33;
pub mod c29;
pub mod c32;
pub mod exh;
pub mod c17;
pub mod c18;
pub mod c19;
pub mod c20;
pub mod c22;
pub mod c30;
pub mod c31;

pub fn all() -> Vec<Prop> {
    vec![
        c01::prop(),
        c02::prop(),
        c03::prop(),
        c04::prop(),
        c05::prop(),
        c06::prop(),
        c07::prop(),
        c08::prop(),
        c09::prop(),
        c10::prop(),
        c11::prop(),
        c12::prop(),
        c13::prop(),
        c14::prop(),
        c15::prop(),
        c16::prop(),
        c21::prop(),
        c23::prop(),
        c24::prop(),
        c25::prop(),
        c26::prop(),
        c27::prop(),
        c28::prop(),
        c29::prop(),
        c17::prop(),
        c18::prop(),
        c19::prop(),
        c20::prop(),
        c22::prop(),
        c30::prop(),
        c31::prop(),
        c32::prop(),
        c33::prop(),
    ]
}

/// Auxiliary child entry points used by custom stages (`verif aux --prop ID ...`).
pub fn aux(id: &str, args: &[String]) -> i32 {
    match id {
        "C14" => c14::aux(args),
        "C17" => c17::aux(args),
        "C22" => c22::aux(args),
        "C31" => c31::aux(args),
        "C21" => c21::aux(args),
        "C32" => c32::aux(args),
        _ => {
            eprintln!("no aux entry for {}", id);
            4
        }
    }
}
