//! One module per property: domain (generator), oracle, non-triviality classifier.
use crate::runner::Prop;

pub mod c01;
pub mod c02;
pub mod c03;
pub mod c17;
pub mod c18;
pub mod c19;
pub mod c20;

pub fn all() -> Vec<Prop> {
    vec![c01::prop(), c02::prop(), c03::prop(), c17::prop(), c18::prop(), c19::prop(), c20::prop()]
}

/// Auxiliary child entry points used by custom stages (`verif aux --prop ID ...`).
pub fn aux(id: &str, _args: &[String]) -> i32 {
    match id {
        "C17" => c17::aux(_args),
        _ => {
            eprintln!("no aux entry for {}", id);
            4
        }
    }
}
