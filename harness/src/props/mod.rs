//! One module per property: domain (generator), oracle, non-triviality classifier.
use crate::runner::Prop;

pub mod c01;
pub mod c02;
pub mod c03;
pub mod c14;
pub mod c15;
pub mod c16;

pub fn all() -> Vec<Prop> {
    vec![c01::prop(), c02::prop(), c03::prop(), c14::prop(), c15::prop(), c16::prop()]
}

/// Auxiliary child entry points used by custom stages (`verif aux --prop ID ...`).
pub fn aux(id: &str, args: &[String]) -> i32 {
    match id {
        "C14" => c14::aux(args),
        _ => {
            eprintln!("no aux entry for {}", id);
            4
        }
    }
}
