//! One module per property: domain (generator), oracle, non-triviality classifier.
use crate::runner::Prop;

pub mod c01;
pub mod c02;
pub mod c03;
pub mod c22;
pub mod c30;
pub mod c31;

pub fn all() -> Vec<Prop> {
    vec![c01::prop(), c02::prop(), c03::prop(), c22::prop(), c30::prop(), c31::prop()]
}

/// Auxiliary child entry points used by custom stages (`verif aux --prop ID ...`).
pub fn aux(id: &str, args: &[String]) -> i32 {
    match id {
        "C22" => c22::aux(args),
        "C31" => c31::aux(args),
        _ => {
            eprintln!("no aux entry for {}", id);
            4
        }
    }
}
