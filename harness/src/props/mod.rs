//! One module per property: domain (generator), oracle, non-triviality classifier.
use crate::runner::Prop;

pub mod c01;
pub mod c02;
pub mod c03;
pub mod c04;
pub mod c05;
pub mod c06;
pub mod c07;
pub mod c08;
pub mod c09;
pub mod c10;
pub mod c11;
pub mod c14;
pub mod c15;
pub mod c16;
pub mod c23;
pub mod c24;
pub mod c25;
pub mod c26;
pub mod c27;
pub mod c28;
pub mod c33;
pub mod c29;
pub mod exh;

pub fn all() -> Vec<Prop> {
    vec![
        c01::prop(),
        c02::prop(),
        c03::prop(),
        c04::prop(),
        c05::prop(),
        c06::prop(),
        c07::prop(),
        c08::prop(),
        c09::prop(),
        c10::prop(),
        c11::prop(),
        c14::prop(),
        c15::prop(),
        c16::prop(),
        c23::prop(),
        c24::prop(),
        c25::prop(),
        c26::prop(),
        c27::prop(),
        c28::prop(),
        c29::prop(),
        c33::prop(),
    ]
}

/// Auxiliary child entry points used by custom stages (`verif aux --prop ID ...`).
pub fn aux(id: &str, args: &[String]) -> i32 {
    match id {
        "C14" => c14::aux(args),
        _ => {
            eprintln!("no aux entry for {}", id);
            4
        }
    }
}
