//! C14 Schema validation agrees with the specification.
use crate::apollo::schema as ap;
use crate::choices::Choices;
use crate::gen::{schema as gs, schema_mut as gm};
use crate::refmodel::typesys::{self, Verdict};
use crate::refmodel::{parser::parse_document, printer};
use crate::runner::{Ctx, Outcome, Prop, Tier};

pub fn prop() -> Prop {
    Prop::new(
        "C14",
        "Schema validation agrees with the specification",
        "Cases: a schema document that is valid by construction (gen::schema, optionally split into extensions), \
         then 0-2 rule-targeted or neutral mutations (gen::schema_mut, one mutator per rule and sub-case of DESIGN \
         Appendix A), printed as text. Oracle: refmodel::typesys (October 2021 type-system rules) applied to the \
         reference parse of the PRINTED TEXT, three-valued; compared with Schema::parse_and_validate Ok/Err. \
         Non-trivial: at least one mutation was applied and the reference verdict is Valid or Invalid; distinct by text. \
         Classes: mutator x reference verdict.",
    )
    .random(
        "mutated-schemas",
        check,
        |t| if t == Tier::Quick { 400_000 } else { 1_600_000 },
        |t| if t == Tier::Quick { 700 } else { 1000 },
    )
    .text(check_text)
    .assumptions(&[
        "oracle is a reference implementation written from the October 2021 spec and graphql-js v16 validateSDL+validateSchema (graphql-core is not installed)",
        "encoded apollo differences: default values not validated; one redefinition of a built-in directive accepted; directive-application arguments type-checked",
        "never compared (reference says Unspecified): redefinition/extension of built-in scalars or introspection types; directive definitions applying themselves; @deprecated on required arguments/input fields; @deprecated(reason: null); schema extensions without a schema definition unless directive-only with an object type Query; non-object types named Query/Mutation/Subscription without a schema definition; numbers beyond 1e300; ill-typed or duplicate-field defaults on non-null input values; additional non-null arguments with defaults on implementing fields; executable definitions",
    ])
}

/// Compare apollo with the reference on one schema text. `labels`: mutators applied (for the
/// histogram only; the verdict never depends on them).
pub fn compare(text: &str, labels: &[String], ctx: &mut Ctx) -> Outcome {
    let doc = match parse_document(text) {
        Ok(d) => d,
        Err(_) => {
            ctx.class("reference-syntax-error");
            return ctx.skip("text is not a syntactically valid document for the reference parser");
        }
    };
    let verdict = typesys::validate(&doc);
    let apollo = ap::parse_and_validate(text);
    let vname = match &verdict {
        Verdict::Valid => "valid",
        Verdict::Invalid(_) => "invalid",
        Verdict::Unspecified(_) => "unspecified",
    };
    if labels.is_empty() {
        ctx.class(format!("unmutated/{}", vname));
    }
    for l in labels {
        ctx.class(format!("{}/{}", l, vname));
    }
    if let Verdict::Invalid(codes) = &verdict {
        for c in codes {
            ctx.class(format!("rule:{}", c));
        }
    }
    match (&verdict, &apollo) {
        (Verdict::Unspecified(_), _) => {
            ctx.nontrivial = false;
            Outcome::Pass
        }
        (Verdict::Valid, Ok(_)) | (Verdict::Invalid(_), Err(_)) => {
            ctx.nontrivial = !labels.is_empty();
            Outcome::Pass
        }
        (Verdict::Valid, Err(r)) => Outcome::fail(
            format!("C14|rejects|{}", r.kinds.join("+")),
            format!("reference: Valid; apollo rejects: {}\n{}", r.messages, text),
        ),
        (Verdict::Invalid(codes), Ok(_)) => {
            // An accepted case is a known finding only if EVERY rule code the reference reports
            // is individually listed; it is then filed under the first listed code. Otherwise
            // the signature is the sorted, joined set of all codes.
            let all_known = codes.iter().all(|c| ctx.known.contains(&format!("C14|accepts|{}", c)));
            let expected = ctx.expect.as_ref().and_then(|e| codes.iter().find(|c| format!("C14|accepts|{}", c) == *e));
            let joined: Vec<&str> = match (all_known, expected) {
                (true, Some(e)) => vec![e.as_str()],
                (true, None) => vec![codes.iter().next().unwrap().as_str()],
                _ => codes.iter().map(|s| s.as_str()).collect(),
            };
            Outcome::fail(
                format!("C14|accepts|{}", joined.join("+")),
                format!("reference: Invalid {:?}; apollo accepts\n{}", codes, text),
            )
        }
    }
}

pub fn check_text(text: &str, ctx: &mut Ctx) -> Outcome {
    ctx.set_sample(text.to_string());
    compare(text, &[], ctx)
}

/// Decode (schema, mutations) from the choice stream. Shared with C15/C16.
pub fn gen_case(c: &mut Choices, tier: Tier) -> (String, Vec<String>) {
    gen_case_weighted(c, tier, &[12, 60, 28])
}

/// `weights`: probabilities of 0, 1, 2 mutations.
pub fn gen_case_weighted(c: &mut Choices, tier: Tier, weights: &[u32]) -> (String, Vec<String>) {
    // the mutation plan is decoded FIRST, so that short choice vectors still yield mutated cases
    let n = c.weighted(weights);
    let plan: Vec<usize> = (0..n).map(|_| gm::pick(c)).collect();
    let opts = gs::Opts { max_types: if tier == Tier::Quick { 3 } else { 4 }, ..gs::Opts::default() };
    let mut doc = gs::schema(c, &opts);
    if c.bool(110) {
        gs::split_extensions(c, &mut doc);
    }
    let mut labels = vec![];
    for k in plan {
        labels.push(gm::mutate_nth(k, c, &mut doc).to_string());
    }
    (printer::print_document(&doc), labels)
}

pub fn check(bytes: &[u8], ctx: &mut Ctx) -> Outcome {
    let mut c = Choices::new(bytes);
    let (text, labels) = gen_case(&mut c, ctx.tier);
    ctx.set_sample(format!("# mutations: {:?}\n{}", labels, text));
    compare(&text, &labels, ctx)
}

/// `verif aux --prop C14 calib`: calibration of the reference against the repository's fixed
/// corpora (development aid, not a check).
pub fn aux(args: &[String]) -> i32 {
    let dirs = ["/repo/crates/apollo-compiler/test_data/ok", "/repo/crates/apollo-compiler/test_data/diagnostics"];
    let verbose = args.iter().any(|a| a == "-v");
    for dir in dirs {
        let mut files: Vec<_> = std::fs::read_dir(dir).unwrap().filter_map(|e| e.ok()).map(|e| e.path()).filter(|p| p.extension().map(|x| x == "graphql").unwrap_or(false)).collect();
        files.sort();
        let (mut agree, mut disagree, mut unspecified, mut skipped) = (0, 0, 0, 0);
        for f in files {
            let text = std::fs::read_to_string(&f).unwrap();
            let name = f.file_name().unwrap().to_string_lossy().to_string();
            let Ok(doc) = parse_document(&text) else {
                skipped += 1;
                if verbose {
                    println!("{name}: reference syntax error");
                }
                continue;
            };
            if doc.defs.iter().any(|d| d.is_executable()) {
                skipped += 1;
                continue;
            }
            let v = typesys::validate(&doc);
            let a = ap::parse_and_validate(&text);
            match (&v, &a) {
                (Verdict::Unspecified(w), _) => {
                    unspecified += 1;
                    println!("{name}: unspecified ({w}); apollo {}", if a.is_ok() { "accepts".to_string() } else { format!("rejects {:?}", a.as_ref().err().unwrap().kinds) });
                }
                (Verdict::Valid, Ok(_)) | (Verdict::Invalid(_), Err(_)) => {
                    agree += 1;
                    if verbose {
                        println!("{name}: agree {:?} / {:?}", v, a.as_ref().err().map(|r| r.kinds.clone()));
                    }
                }
                _ => {
                    disagree += 1;
                    println!("{name}: DISAGREE reference {:?}; apollo {:?}", v, a.as_ref().err().map(|r| r.kinds.clone()));
                }
            }
        }
        println!("{dir}: agree={agree} disagree={disagree} unspecified={unspecified} skipped(executable or syntax)={skipped}");
    }
    0
}
