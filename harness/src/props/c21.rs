//! C21 The compiler never panics on adversarial input; excessive depth produces recursion-limit
//! diagnostics; diagnostic lists come out sorted by source position.
use crate::choices::{fnv, Choices};
use crate::gen::adversary::{self, Adv};
use crate::gen::syntax;
use crate::refmodel::introspect::INTROSPECTION_QUERY;
use crate::refmodel::printer;
use crate::runner::{catch, normalise_panic, truncate, Ctx, Outcome, Prop, Tier};
use apollo_compiler::diagnostic::{Color, ToCliReport};
use apollo_compiler::validation::{DiagnosticList, Valid};
use apollo_compiler::{ast, ExecutableDocument, Schema};
use std::sync::OnceLock;

pub fn prop() -> Prop {
    Prop::new(
        "C21",
        "The compiler never panics on adversarial input",
        "Cases: a text made of a type-system part and an executable part, from (a) the C01 text sources (arbitrary \
         Unicode, token soup, mutated grammar-covering documents, nesting templates, mutated repository test_data files), \
         (b) semantic adversaries (gen::adversary): fragment / directive-definition / input-object / interface / union \
         chains and cycles of length 1..600 (1200 thorough) through every connector, fragment chains times field nesting, \
         selection and value nesting up to twice the parser limit, thousands of siblings and colliding names, with \
         lengths just below, at, and at >= 2x every internal limit (32, 100, 128, 500), optionally decorated with BOM / \
         CRLF / multi-byte comments, (c) mutated C14 schemas with generated operations appended. Oracle, on a 2 MiB-stack \
         thread in a child process: ast::Document::parse, validate_standalone_executable, to_schema_validate, \
         Schema::parse, Schema::builder (adopt_orphan_extensions, ignore_builtin_redefinitions), Schema::validate, \
         ExecutableDocument::parse + validate against the text's own schema when valid (else a fixed schema), \
         parse_mixed_validate, to_string of every result, full-introspection partial_execute on valid schemas, introspection::check_max_depth and partial_execute on every document that validates, DiagnosticList::merge of the lists seen (both ways round), and for \
         every diagnostic Display, Debug with forced ANSI colours, to_report, to_json + serde, line_column_range: all \
         return (no panic, no signal; in lists of more than 160 diagnostics the renderings cover a spread sample of ~64, \
         to_json and line_column_range cover all). Every DiagnosticList is sorted by Option<(FileId, offset)> (unlocated first), \
         the key DiagnosticList::sort uses. Chains at >= 2x the relevant limit give Err with a recursion-limit style \
         diagnostic. Non-trivial: a partial schema or document was built and the case has a chain/cycle or >= 1 \
         diagnostic; distinct by text.",
    )
    .random(
        "adversaries",
        check,
        |t| if t == Tier::Quick { 24_000 } else { 100_000 },
        |t| if t == Tier::Quick { 400 } else { 700 },
    )
    .text(check_plain_text)
    .case_timeout(60)
    .assumptions(&[
        "stack: 2 MiB per thread (Rust's default for spawned threads)",
        "default parser limits only (recursion 500, no token limit)",
        "executable documents are built against an invalid schema only through parse_mixed_validate / to_mixed_validate, which accept one; ExecutableDocument::parse is given the text's own schema only when it validated (Valid::assume_valid on an invalid schema is outside the documented contract)",
        "DAG-shaped fragment ladders are kept at <= 16 levels: an un-memoised walk would be a hang, and a hang is INCONCLUSIVE, never a violation",
        "ANSI colours are forced through CLICOLOR_FORCE=1 (the worker's stderr is not a terminal)",
    ])
}

// ------------------------------------------------------------------------------------------------
// case

pub struct Case {
    pub schema: String,
    pub exec: String,
    pub family: &'static str,
    pub shape: String,
    pub n: usize,
    pub chain: bool,
    pub expect_err: Option<&'static str>,
    pub otherwise_valid: bool,
}

impl Case {
    pub fn from_adv(a: Adv) -> Case {
        Case { schema: a.schema, exec: a.exec, family: a.family, shape: a.shape, n: a.n, chain: true, expect_err: a.expect_err, otherwise_valid: a.otherwise_valid }
    }
    pub fn plain(text: String, family: &'static str) -> Case {
        Case { schema: text, exec: String::new(), family, shape: family.to_string(), n: 0, chain: false, expect_err: None, otherwise_valid: false }
    }
    pub fn full(&self) -> String {
        if self.exec.is_empty() {
            self.schema.clone()
        } else if self.schema.is_empty() {
            self.exec.clone()
        } else {
            format!("{}\n{}", self.schema, self.exec)
        }
    }
}

pub fn gen_case(c: &mut Choices, tier: Tier) -> Case {
    match c.weighted(&[58, 22, 20]) {
        0 => {
            let mut a = adversary::adversary(c, tier == Tier::Thorough);
            // decoration never changes tokens other than ignored ones
            a.schema = adversary::decorate(c, &a.schema);
            if !a.exec.is_empty() && c.bool(60) {
                a.exec = adversary::decorate(c, &a.exec);
            }
            Case::from_adv(a)
        }
        1 => {
            let (text, source, _) = super::c01::gen_text(c, tier);
            let fam = match source {
                "unicode" => "text/unicode",
                "token-soup" => "text/token-soup",
                "document" => "text/document",
                "nesting" => "text/nesting",
                "corpus" => "text/corpus",
                _ => "text/special",
            };
            Case::plain(text, fam)
        }
        _ => {
            let (schema, labels) = super::c14::gen_case_weighted(c, tier, &[10, 50, 40]);
            // executable definitions from the grammar-covering generator: mostly invalid against
            // the schema, which is the point (many diagnostics of many kinds)
            let mut exec = String::new();
            let nops = c.small(3);
            let cfg = syntax::Cfg::default();
            for _ in 0..nops {
                let mut t = printer::Toks(vec![]);
                if c.bool(90) {
                    let f = syntax::fragment(c, &cfg);
                    t.definition(&crate::refmodel::ast::Definition::Fragment(f));
                } else {
                    let o = syntax::operation(c, &cfg);
                    t.operation(&o);
                }
                exec.push_str(&printer::join_plain(&t.0));
                exec.push('\n');
            }
            let mut case = Case::plain(schema, "c14-mutated");
            case.exec = exec;
            case.shape = if labels.is_empty() { "c14-mutated/none".into() } else { format!("c14-mutated/{}", labels.len()) };
            case
        }
    }
}

// ------------------------------------------------------------------------------------------------
// observation

#[derive(Default)]
pub struct Obs {
    /// a few of the diagnostic lists seen (merged pairwise at the end: `DiagnosticList::merge` documents
    /// that it sorts the two lists together)
    pub kept: Vec<DiagnosticList>,
    /// (entry point, panic message, location)
    pub panics: Vec<(&'static str, String, String)>,
    /// (signature suffix, detail)
    pub problems: Vec<(String, String)>,
    pub diagnostics: usize,
    pub lists: usize,
    pub rendered: usize,
    pub unlocated: usize,
    pub ansi_seen: bool,
    pub limit_diag: bool,
    pub built_something: bool,
    pub schema_valid: bool,
    pub mixed_ok: Option<bool>,
    pub mixed_limit_diag: bool,
    pub introspected: bool,
    pub deep_introspection_executed: bool,
    pub introspection_other: Option<&'static str>,
    pub multi_file_list: bool,
}

fn force_colours() {
    static ONCE: std::sync::Once = std::sync::Once::new();
    // concolor reads the environment once, lazily; set it before the first coloured rendering
    ONCE.call_once(|| std::env::set_var("CLICOLOR_FORCE", "1"));
}

fn is_limit_message(m: &str) -> bool {
    m.contains("too much recursion") || m.contains("too much nesting") || m.contains("recursion limit")
}

/// Above this many diagnostics in one list, the renderings are done for a spread sample only
/// (first 24, last 8, every k-th; rendering one diagnostic costs time proportional to the labelled
/// lines); `to_json` and `line_column_range` still cover every diagnostic.
const RENDER_ALL_UP_TO: usize = 160;

/// Render and inspect one diagnostic list. Returns whether it contains a recursion-limit style
/// diagnostic. `render == false`: order and messages only (the same diagnostics are rendered
/// through another entry point).
fn inspect_list(entry: &'static str, list: &DiagnosticList, obs: &mut Obs, render: bool) -> bool {
    obs.lists += 1;
    if entry != "DiagnosticList::merge" && obs.kept.len() < 3 && !list.is_empty() && list.len() <= 150 {
        obs.kept.push(list.clone());
    }
    let mut limit = false;
    let mut prev: Option<Option<(apollo_compiler::parser::FileId, usize)>> = None;
    let mut files = std::collections::BTreeSet::new();
    let total = list.len();
    let stride = total / 32 + 1;
    for (i, d) in list.iter().enumerate() {
        obs.diagnostics += 1;
        let loc = d.error.location();
        let key = loc.map(|l| (l.file_id(), l.offset()));
        if let Some(k) = key {
            files.insert(k.0);
        } else {
            obs.unlocated += 1;
        }
        if let Some(p) = prev {
            if key < p {
                obs.problems.push((
                    format!("unsorted|{}", entry),
                    format!(
                        "{}: diagnostic #{} of {} at {:?} comes after one at {:?} (message: {})",
                        entry,
                        i,
                        total,
                        key.map(|k| k.1),
                        p.map(|k| k.1),
                        d.error
                    ),
                ));
            }
        }
        prev = Some(key);
        let msg = d.error.to_string();
        if is_limit_message(&msg) {
            limit = true;
        }
        if !render {
            continue;
        }
        let json = d.to_json();
        match serde_json::to_string(&json) {
            Ok(s) => {
                if s.is_empty() {
                    obs.problems.push((format!("empty-json|{}", entry), format!("{}: to_json of diagnostic #{} serialises to nothing", entry, i)));
                }
            }
            Err(e) => obs.problems.push((format!("json-error|{}", entry), format!("{}: to_json of diagnostic #{} does not serialise: {}", entry, i, e))),
        }
        let lc = d.line_column_range();
        if let (Some(_), Some(r)) = (loc, &lc) {
            if r.start.line == 0 || r.start.column == 0 {
                obs.problems.push((format!("line-column-zero|{}", entry), format!("{}: line_column_range of diagnostic #{} starts at {:?}", entry, i, r.start)));
            }
        }
        let sampled = total <= RENDER_ALL_UP_TO || i < 24 || i + 8 >= total || i % stride == 0;
        if !sampled {
            continue;
        }
        obs.rendered += 1;
        // rendering: plain, coloured (Debug and explicit report)
        let plain = d.to_string();
        let coloured = format!("{:?}", d);
        let report = d.to_report(Color::StderrIsTerminal).into_string();
        if coloured.contains("\u{1b}[") || report.contains("\u{1b}[") {
            obs.ansi_seen = true;
        }
        if plain.is_empty() {
            obs.problems.push((format!("empty-rendering|{}", entry), format!("{}: Display of diagnostic #{} is empty", entry, i)));
        }
    }
    if files.len() > 1 {
        obs.multi_file_list = true;
    }
    if render && total <= RENDER_ALL_UP_TO {
        // the list-level renderings
        let all = list.to_string();
        if total > 0 && all.is_empty() {
            obs.problems.push((format!("empty-rendering|{}", entry), format!("{}: Display of a list of {} diagnostics is empty", entry, total)));
        }
        let _ = format!("{:?}", list);
    }
    if limit {
        obs.limit_diag = true;
    }
    limit
}

macro_rules! entry {
    ($obs:expr, $name:expr, $body:expr) => {
        match catch(|| $body) {
            Ok(v) => Some(v),
            Err((msg, loc)) => {
                $obs.panics.push(($name, msg, loc));
                None
            }
        }
    };
}

fn fixed_schema() -> &'static Valid<Schema> {
    static S: OnceLock<Valid<Schema>> = OnceLock::new();
    S.get_or_init(|| Schema::parse_and_validate(adversary::BASE_SCHEMA, "fixed.graphql").expect("fixed schema is valid"))
}

fn use_schema(s: &Schema) -> usize {
    let text = s.to_string();
    let _ = s.serialize().no_indent().to_string();
    let _ = s.implementers_map();
    text.len() + s.types.len()
}

fn use_executable(d: &ExecutableDocument) -> usize {
    let text = d.to_string();
    let _ = d.serialize().no_indent().to_string();
    text.len() + d.fragments.len() + d.operations.len()
}

fn introspect(obs: &mut Obs, schema: &Valid<Schema>) {
    use crate::apollo::introspect::{partial_execute, ExecObs};
    // only "returns" is required here; what it returns is C24's subject
    match partial_execute(schema, INTROSPECTION_QUERY) {
        ExecObs::Response(_) => obs.introspected = true,
        ExecObs::Invalid(_) => obs.introspection_other = Some("introspection/query-rejected"),
        ExecObs::NoOperation => {}
        ExecObs::RequestError(_) => obs.introspection_other = Some("introspection/request-error"),
    }
}

/// Runs every entry point on the case.
pub fn run_all(case: &Case) -> Obs {
    force_colours();
    let mut obs = Obs::default();
    let full = case.full();
    let schema_text: &str = if case.exec.is_empty() { &full } else { &case.schema };
    let exec_text: &str = if case.exec.is_empty() { &full } else { &case.exec };

    // 1. AST
    let doc = entry!(obs, "ast::Document::parse", {
        match ast::Document::parse(full.as_str(), "doc.graphql") {
            Ok(d) => d,
            Err(e) => {
                inspect_list("ast::Document::parse", &e.errors, &mut obs, true);
                e.partial
            }
        }
    });
    if let Some(doc) = &doc {
        if !doc.definitions.is_empty() {
            obs.built_something = true;
        }
        entry!(obs, "ast::Document::to_string", {
            let _ = doc.to_string();
            let _ = doc.serialize().no_indent().to_string();
        });
        entry!(obs, "validate_standalone_executable", {
            if let Err(l) = doc.validate_standalone_executable() {
                inspect_list("validate_standalone_executable", &l, &mut obs, true);
            }
        });
        entry!(obs, "to_schema_validate", {
            match doc.to_schema_validate() {
                Ok(s) => {
                    use_schema(&s);
                }
                Err(e) => {
                    inspect_list("to_schema_validate", &e.errors, &mut obs, false);
                    use_schema(&e.partial);
                }
            }
        });
    }

    // 2. Schema::parse, validate
    let mut own_schema: Option<Valid<Schema>> = None;
    let built = entry!(obs, "Schema::parse", {
        match Schema::parse(schema_text, "schema.graphql") {
            Ok(s) => s,
            Err(e) => {
                inspect_list("Schema::parse", &e.errors, &mut obs, true);
                e.partial
            }
        }
    });
    if let Some(s) = built {
        if !s.types.is_empty() {
            obs.built_something = true;
        }
        entry!(obs, "Schema::to_string", {
            use_schema(&s);
        });
        if let Some(r) = entry!(obs, "Schema::validate", s.validate()) {
            match r {
                Ok(v) => {
                    entry!(obs, "Valid<Schema>::to_string", {
                        use_schema(&v);
                    });
                    own_schema = Some(v);
                }
                Err(e) => {
                    entry!(obs, "Schema::validate/diagnostics", {
                        inspect_list("Schema::validate", &e.errors, &mut obs, true);
                        use_schema(&e.partial);
                    });
                }
            }
        }
    }
    obs.schema_valid = own_schema.is_some();

    // 3. builder paths
    entry!(obs, "Schema::builder", {
        let b = Schema::builder().adopt_orphan_extensions().parse(schema_text, "builder.graphql");
        let _ = b.iter_orphan_extension_types().count();
        match b.build() {
            Ok(s) => match s.validate() {
                Ok(v) => {
                    use_schema(&v);
                }
                Err(e) => {
                    inspect_list("Schema::builder/validate", &e.errors, &mut obs, false);
                    use_schema(&e.partial);
                }
            },
            Err(e) => {
                inspect_list("Schema::builder/build", &e.errors, &mut obs, false);
                use_schema(&e.partial);
            }
        }
        // two sources in one builder: diagnostics of both files in one list
        let b2 = Schema::builder().ignore_builtin_redefinitions().parse(schema_text, "first.graphql").parse(exec_text, "second.graphql");
        if let Err(e) = b2.build() {
            inspect_list("Schema::builder/two-files", &e.errors, &mut obs, true);
        }
    });

    // 4. mixed
    if let Some(r) = entry!(obs, "parse_mixed_validate", apollo_compiler::parser::Parser::new().parse_mixed_validate(full.as_str(), "mixed.graphql")) {
        match r {
            Ok((s, d)) => {
                obs.mixed_ok = Some(true);
                entry!(obs, "parse_mixed_validate/to_string", {
                    use_schema(&s);
                    use_executable(&d);
                });
            }
            Err(l) => {
                obs.mixed_ok = Some(false);
                entry!(obs, "parse_mixed_validate/diagnostics", {
                    obs.mixed_limit_diag = inspect_list("parse_mixed_validate", &l, &mut obs, true);
                });
            }
        }
    }

    // 5. executable against the text's own schema when it is valid, else the fixed one
    let against: &Valid<Schema> = own_schema.as_ref().unwrap_or_else(|| fixed_schema());
    let exe = entry!(obs, "ExecutableDocument::parse", {
        match ExecutableDocument::parse(against, exec_text, "exec.graphql") {
            Ok(d) => d,
            Err(e) => {
                inspect_list("ExecutableDocument::parse", &e.errors, &mut obs, true);
                e.partial
            }
        }
    });
    if let Some(d) = exe {
        if !d.fragments.is_empty() || !d.operations.is_empty() {
            obs.built_something = true;
        }
        entry!(obs, "ExecutableDocument::to_string", {
            use_executable(&d);
        });
        if let Some(r) = entry!(obs, "ExecutableDocument::validate", d.validate(against)) {
            match r {
                Ok(v) => {
                    entry!(obs, "Valid<ExecutableDocument>::to_string", {
                        use_executable(&v);
                    });
                    // everything that walks a VALID document relies on what validation established
                    // (no fragment cycle, bounded nesting): the introspection depth check and, for
                    // operations it lets through, partial execution of the introspection parts
                    entry!(obs, "introspection::check_max_depth(valid document)", {
                        let implementers = against.implementers_map();
                        let ops: Vec<_> = v.operations.anonymous.iter().chain(v.operations.named.values()).take(4).collect();
                        for op in ops {
                            crate::runner::phase("introspection::check_max_depth");
                            let ok = apollo_compiler::introspection::check_max_depth(&v, op).is_ok();
                            crate::runner::phase("");
                            if ok {
                                if let Ok(vars) = apollo_compiler::request::coerce_variable_values(against, op, &apollo_compiler::response::JsonMap::default()) {
                                    crate::runner::phase("introspection::partial_execute");
                                    let _ = apollo_compiler::introspection::partial_execute(against, &implementers, &v, op, &vars);
                                    crate::runner::phase("");
                                }
                            }
                        }
                    });
                }
                Err(e) => {
                    entry!(obs, "ExecutableDocument::validate/diagnostics", {
                        inspect_list("ExecutableDocument::validate", &e.errors, &mut obs, true);
                        use_executable(&e.partial);
                    });
                }
            }
        }
    }

    // 6. introspection of the valid schema
    if let Some(v) = &own_schema {
        entry!(obs, "introspection::partial_execute", introspect(&mut obs, v));
        if case.family == "introspection-nesting" {
            entry!(obs, "introspection::check_max_depth", {
                use crate::apollo::introspect::DepthObs;
                // execution is only for operations the depth check lets through (as documented)
                if let DepthObs::Verdict { ok: true, .. } = crate::apollo::introspect::check_max_depth(v, exec_text) {
                    let _ = crate::apollo::introspect::partial_execute(v, exec_text);
                    obs.deep_introspection_executed = true;
                }
            });
        }
    }
    // 7. merged lists are sorted together, whichever list receives the other
    let kept = std::mem::take(&mut obs.kept);
    for i in 0..kept.len() {
        for j in 0..kept.len() {
            if i != j {
                entry!(obs, "DiagnosticList::merge", {
                    let mut m = kept[i].clone();
                    m.merge(kept[j].clone());
                    inspect_list("DiagnosticList::merge", &m, &mut obs, false);
                });
            }
        }
    }
    obs
}

fn panic_sig(entry: &str, msg: &str, loc: &str, lossy_tree: bool) -> String {
    // ariadne 0.6.0 write.rs:267 (header of a source group other than the report's own source, in
    // byte-index mode): one root cause whatever the entry point and the text of the line
    if loc.contains("ariadne") && loc.ends_with("write.rs:267") && msg.contains("is not a char boundary") {
        return "C21|panic|diagnostic-rendering|ariadne-secondary-source-header-char-boundary".to_string();
    }
    // C02's recorded defect (the type parser drops the offending token from the syntax tree) shifts
    // every later text range of that tree by the dropped bytes; a shifted location can end inside a
    // multi-byte character, and ariadne then slices the line at that byte. One root cause (C02's)
    // whatever the entry point: only when the document's tree really is lossy.
    if lossy_tree && loc.contains("ariadne") && msg.contains("is not a char boundary") {
        return "C21|panic|diagnostic-rendering|location-shifted-by-dropped-token".to_string();
    }
    format!("C21|panic|{}|{}", entry, normalise_panic(msg, loc))
}

/// Does apollo-parser's tree of this text lack part of the text (C02's recorded defect)?
fn tree_is_lossy(text: &str) -> bool {
    use crate::apollo::parse::{parse, Entry};
    crate::runner::catch(|| parse(Entry::Document, text, None, None).root.text().to_string() != text).unwrap_or(false)
}

pub fn check_case(case: &Case, ctx: &mut Ctx) -> Outcome {
    let obs = run_all(case);
    ctx.class(case.family);
    if case.shape != case.family {
        ctx.class(case.shape.clone());
    }
    if obs.diagnostics > 0 {
        ctx.class("has-diagnostics");
    }
    if obs.diagnostics >= 100 {
        ctx.class("diagnostics>=100");
    }
    if obs.unlocated > 0 {
        ctx.class("has-unlocated-diagnostic");
    }
    if obs.limit_diag {
        ctx.class("recursion-limit-diagnostic");
    }
    if obs.ansi_seen {
        ctx.class("ansi-colours-rendered");
    }
    if obs.schema_valid {
        ctx.class("own-schema-valid");
    }
    if obs.introspected {
        ctx.class("introspected");
    }
    if obs.deep_introspection_executed {
        ctx.class("nested-introspection-executed");
    }
    if let Some(c) = obs.introspection_other {
        ctx.class(c);
    }
    if obs.multi_file_list {
        ctx.class("multi-file-diagnostic-list");
    }
    match obs.mixed_ok {
        Some(true) => ctx.class("mixed-ok"),
        Some(false) => ctx.class("mixed-err"),
        None => {}
    }
    if let Some(l) = case.expect_err {
        ctx.class(format!("expect-err/{}", l));
    }
    ctx.nontrivial = obs.built_something && (case.chain || obs.diagnostics > 0);

    let lossy = !obs.panics.is_empty() && (tree_is_lossy(&case.full()) || tree_is_lossy(&case.schema) || tree_is_lossy(&case.exec));
    let mut fails: Vec<(String, String)> = obs
        .panics
        .iter()
        .map(|(entry, msg, loc)| (panic_sig(entry, msg, loc, lossy), format!("{} panicked: {} at {}", entry, msg, loc)))
        .collect();
    for (s, d) in &obs.problems {
        fails.push((format!("C21|{}", s), d.clone()));
    }
    if let (Some(limit), Some(ok)) = (case.expect_err, obs.mixed_ok) {
        if ok {
            fails.push((
                format!("C21|limit-not-enforced|{}", limit),
                format!("a {} of length {} (>= 2x the internal limit {}) validates Ok through parse_mixed_validate", case.family, case.n, limit),
            ));
        } else if case.otherwise_valid && !obs.mixed_limit_diag {
            fails.push((
                format!("C21|no-recursion-diagnostic|{}", limit),
                format!("a {} of length {} (>= 2x the internal limit {}), valid apart from its depth, is rejected without any recursion-limit style diagnostic", case.family, case.n, limit),
            ));
        }
    }
    ctx.pick_failure(fails)
}

pub fn check(bytes: &[u8], ctx: &mut Ctx) -> Outcome {
    let mut c = Choices::new(bytes);
    let case = gen_case(&mut c, ctx.tier);
    let full = case.full();
    ctx.set_sample(format!("# {} n={} expect_err={:?}\n{}", case.shape, case.n, case.expect_err, truncate(&full, 1200)));
    ctx.key = Some(fnv(full.as_bytes()));
    check_case(&case, ctx)
}

/// Replay of a raw text (`{"text": ...}`): everything in one part.
pub fn check_plain_text(text: &str, ctx: &mut Ctx) -> Outcome {
    let case = Case::plain(text.to_string(), "replay");
    check_case(&case, ctx)
}

/// `verif aux --prop C21 text <file>` / `gen <hex>`: development aids.
pub fn aux(args: &[String]) -> i32 {
    crate::runner::install_panic_hook();
    let pos = args.iter().position(|a| a == "text" || a == "gen" || a == "idx");
    let Some(pos) = pos else {
        eprintln!("usage: aux --prop C21 text <file> | gen <hex> [--thorough]");
        return 4;
    };
    let tier = if args.iter().any(|a| a == "--thorough") { Tier::Thorough } else { Tier::Quick };
    let case = if args[pos] == "text" {
        let text = std::fs::read_to_string(&args[pos + 1]).expect("read file");
        Case::plain(text, "replay")
    } else if args[pos] == "idx" {
        // idx <seed> <index>: the case the runner generates for (seed, C21, stage 0, index)
        let seed: u64 = args[pos + 1].parse().expect("seed");
        let index: u64 = args[pos + 2].parse().expect("index");
        let bytes = crate::runner::gen_case(seed, "C21", 0, index, if tier == Tier::Quick { 400 } else { 700 });
        println!("hex={}", crate::choices::hex(&bytes));
        let mut c = Choices::new(&bytes);
        gen_case(&mut c, tier)
    } else {
        let bytes = crate::choices::unhex(&args[pos + 1]);
        let mut c = Choices::new(&bytes);
        gen_case(&mut c, tier)
    };
    if let Some(i) = args.iter().position(|a| a == "--save") {
        std::fs::write(&args[i + 1], case.full()).expect("write");
    }
    if args.iter().any(|a| a == "--show") {
        // the diagnostics of parse_mixed_validate (messages only)
        let full = case.full();
        let h = std::thread::Builder::new().stack_size(64 << 20).spawn(move || {
            match apollo_compiler::parser::Parser::new().parse_mixed_validate(full.as_str(), "mixed.graphql") {
                Ok(_) => println!("mixed: Ok"),
                Err(l) => {
                    println!("mixed: {} diagnostics", l.len());
                    let mut counts = std::collections::BTreeMap::new();
                    for d in l.iter() {
                        *counts.entry(crate::runner::truncate(&d.error.to_string(), 80)).or_insert(0usize) += 1;
                    }
                    for (m, n) in counts.iter().take(40) {
                        println!("{:6} {}", n, m);
                    }
                }
            }
        }).unwrap();
        let _ = h.join();
    }
    if args.iter().any(|a| a == "--no-run") {
        println!("shape={} n={} expect={:?} bytes={}", case.shape, case.n, case.expect_err, case.full().len());
        return 0;
    }
    if args.iter().any(|a| a == "--print") {
        println!("{}", case.full());
    }
    let stack = args.iter().position(|a| a == "--stack-kib").and_then(|i| args.get(i + 1)).and_then(|s| s.parse::<usize>().ok()).unwrap_or(2048);
    let h = std::thread::Builder::new()
        .stack_size(stack * 1024)
        .spawn(move || {
            let mut ctx = Ctx::new(tier, true);
            let t0 = std::time::Instant::now();
            let o = check_case(&case, &mut ctx);
            println!("shape={} n={} expect={:?} classes={:?} elapsed={:?}", case.shape, case.n, case.expect_err, ctx.classes, t0.elapsed());
            println!("{:?}", o);
        })
        .unwrap();
    let _ = h.join();
    0
}
