//! C05 Syntax acceptance matches the GraphQL grammar.
use crate::apollo::parse::{self, Entry};
use crate::choices::Choices;
use crate::gen::syntax;
use crate::refmodel::{parser, printer};
use crate::runner::{Ctx, Outcome, Prop, Tier};

pub fn prop() -> Prop {
    Prop::new(
        "C05",
        "Syntax acceptance matches the GraphQL grammar",
        "Cases: reference ASTs covering every production of the October 2021 document grammar (all definition and \
         extension kinds, descriptions, directives everywhere, variables with defaults and directives, every value \
         kind, leading &/| separators, keywords as names), printed with random ignored tokens, then 0-3 token-level \
         mutations (delete, duplicate, swap, insert, replace) that land on both sides of the grammar boundary. \
         Oracle: independent strict recursive-descent parser over an independent lexer: apollo reports no error <=> \
         the reference accepts; when both accept, the top-level definitions (kind, name) agree in order. \
         Non-trivial: a mutated document (either verdict); distinct by text.",
    )
    .random("documents", check, |t| if t == Tier::Quick { 1_500_000 } else { 12_000_000 }, |t| if t == Tier::Quick { 500 } else { 900 })
    .text(check_text)
    .assumptions(&[
        "grammar: October 2021 (no descriptions on executable definitions, no `&` directive-location syntax extensions, no `extend` without a body)",
        "lexically invalid inputs are rejected by both sides and are not the subject of this property (C03)",
    ])
}

pub fn check_text(src: &str, ctx: &mut Ctx) -> Outcome {
    let r = parser::parse_document(src);
    let p = parse::parse(Entry::Document, src, None, None);
    let apollo_ok = p.errors.is_empty();
    ctx.class(match (&r, apollo_ok) {
        (Ok(_), true) => "both-accept",
        (Err(_), false) => "both-reject",
        (Ok(_), false) => "DISAGREE-apollo-rejects",
        (Err(_), true) => "DISAGREE-apollo-accepts",
    });
    match (r, apollo_ok) {
        (Err(e), true) => Outcome::fail(
            format!("C05|accepts|{}", e.code()),
            format!("apollo-parser reports no error but the reference grammar rejects at byte {} ({}): {:?}", e.at_byte, e.code(), src),
        ),
        (Ok(_), false) => {
            let first = &p.errors[0];
            let msg = first.message.split(", got").next().unwrap_or(&first.message).to_string();
            Outcome::fail(
                format!("C05|rejects|{}", msg),
                format!("the reference grammar accepts but apollo-parser reports {:?} at {}: {:?}", first.message, first.index, src),
            )
        }
        (Ok(doc), true) => {
            let want: Vec<(String, Option<String>)> = doc.defs.iter().map(|d| { let (k, n) = d.kind_name(); (parse::screaming(&k), n) }).collect();
            let got = parse::top_level(&p.root);
            if want != got {
                let i = want.iter().zip(got.iter()).position(|(a, b)| a != b).unwrap_or(want.len().min(got.len()));
                return Outcome::fail(
                    format!("C05|definitions|{}", want.get(i).map(|x| x.0.clone()).unwrap_or_else(|| "extra".into())),
                    format!("top-level definitions differ at #{}: reference {:?}, apollo {:?} for {:?}", i, want.get(i), got.get(i), src),
                );
            }
            Outcome::Pass
        }
        (Err(_), false) => Outcome::Pass,
    }
}

pub fn check(bytes: &[u8], ctx: &mut Ctx) -> Outcome {
    let mut c = Choices::new(bytes);
    let d = syntax::document(&mut c, &syntax::Cfg::default());
    let mut toks = printer::doc_tokens(&d);
    let mutated = c.bool(190);
    if mutated {
        syntax::mutate_tokens(&mut c, &mut toks, 3);
    }
    let text = if c.coin() { printer::join_random(&toks, &mut c) } else { printer::join_plain(&toks) };
    ctx.nontrivial = mutated;
    ctx.class(if mutated { "mutated" } else { "unmutated" });
    ctx.set_sample(text.clone());
    check_text(&text, ctx)
}
