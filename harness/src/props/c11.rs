//! C11 Source locations and line/column positions are correct.
use crate::apollo::astwalk::LocWalk;
use crate::choices::Choices;
use crate::gen::syntax;
use crate::refmodel::{linecol, printer};
use crate::runner::{Ctx, Outcome, Prop, Tier};
use apollo_compiler::ast;
use apollo_compiler::diagnostic::ToCliReport;

pub fn prop() -> Prop {
    Prop::new(
        "C11",
        "Source locations and line/column positions are correct",
        "Cases: grammar-covering documents printed with ignored tokens that contain multi-byte text and unusual \
         separators (comments with e-acute / CJK / emoji, form feed, VT, U+0085, U+2028, U+2029; \\n, \\r\\n, \\r line \
         terminators; string and block-string tokens with multi-byte text), half of them with one trailing syntax \
         error so a diagnostic exists. Oracles: (1) every Name and Node of the parsed ast::Document has a location \
         inside its file and a name's location covers exactly the name's text; (2) for EVERY char-boundary offset of \
         the text (skipping the position inside \\r\\n) SourceFile::get_line_column equals the reference (line by the \
         GraphQL LineTerminator rule, column in Unicode scalar values, as LineColumn documents); (3) each \
         diagnostic's line_column_range() and to_json().locations agree with the reference for the diagnostic's \
         span. Non-trivial: a multi-byte character or a non-\\n separator occurs in the text; distinct by text.",
    )
    .random("documents", check, |t| if t == Tier::Quick { 500_000 } else { 2_000_000 }, |t| if t == Tier::Quick { 400 } else { 800 })
    .text(check_text)
}

const IGN: &[&str] = &[
    " ", "\n", ",", "\t", "\r\n", "\r", " # c\n", "#é中🚀\n", "# a\u{c}b\n", "#\u{2028}x\r\n", "# \u{85} y\r", "#\u{b}\n", "\u{feff}", " #\u{2029}\n", "#ñ \"q\" {\r\n", "  ",
];

fn join(tokens: &[String], c: &mut Choices) -> String {
    let mut out = String::new();
    // ignored tokens may also open the file: a byte order mark first, then any ignored token
    if c.bool(45) {
        out.push('\u{feff}');
    }
    if c.bool(60) {
        out.push_str(c.pick(IGN));
    }
    for (i, t) in tokens.iter().enumerate() {
        if i > 0 {
            let simple = |t: &str| t.len() == 1 && "!$&():=@[]{}|".contains(t);
            let need = !(simple(&tokens[i - 1]) || simple(t));
            if need || c.bool(150) {
                out.push_str(c.pick(IGN));
                if c.bool(40) {
                    out.push_str(c.pick(IGN));
                }
            }
        }
        // some string tokens are replaced by multi-byte ones
        if t.starts_with('"') && !t.starts_with("\"\"\"") && c.bool(100) {
            out.push_str(c.pick(&["\"é中🚀\"", "\"\u{2028}\"", "\"a\u{c}b\"", "\"ñ\\n\""]));
        } else if t.starts_with("\"\"\"") && c.bool(100) {
            out.push_str(c.pick(&["\"\"\"é\r\n  中\n 🚀\r\"\"\"", "\"\"\"\u{2028}\n\u{85}\"\"\""]));
        } else {
            out.push_str(t);
        }
    }
    out
}

pub fn check_text(src: &str, ctx: &mut Ctx) -> Outcome {
    let (doc, errors) = match ast::Document::parse(src.to_string(), "c11.graphql") {
        Ok(d) => (d, None),
        Err(e) => (e.partial, Some(e.errors)),
    };
    let mut fails: Vec<(String, String)> = vec![];
    // the source file of this document
    let Some((file_id, file)) = doc.sources.iter().next().map(|(k, v)| (*k, v.clone())) else {
        return Outcome::fail("C11|no-source-file", "parsed document has no source file");
    };
    // (1) locations of names and nodes
    for l in LocWalk::document(&doc) {
        match l.span {
            None => fails.push((format!("C11|no-location|{}", l.label), format!("{} {:?} has no location in {:?}", l.label, l.name, src))),
            Some((fid, s, e)) => {
                if fid != file_id || s > e || e > src.len() || !src.is_char_boundary(s) || !src.is_char_boundary(e) {
                    fails.push((format!("C11|bad-location|{}", l.label), format!("{} {:?} has location {}..{} outside the {}-byte file", l.label, l.name, s, e, src.len())));
                } else if let Some(n) = &l.name {
                    if &src[s..e] != n {
                        fails.push((format!("C11|name-span|{}", l.label), format!("{} {:?} has location {}..{} covering {:?} in {:?}", l.label, n, s, e, &src[s..e], src)));
                    }
                }
            }
        }
    }
    // (1b) the range conversion of every located node and name (multi-line spans included) must agree
    // with converting its two ends separately by the reference
    let mut range_fail: Option<(String, String)> = None;
    for l in LocWalk::document(&doc) {
        let Some((fid, s0, e0)) = l.span else { continue };
        if fid != file_id || s0 > e0 || e0 > src.len() || !src.is_char_boundary(s0) || !src.is_char_boundary(e0) {
            continue;
        }
        let (Some(rs), Some(re)) = (linecol::line_column(src, s0), linecol::line_column(src, e0)) else { continue };
        ctx.sub_evals += 1;
        match file.get_line_column_range(s0..e0) {
            None => {
                range_fail.get_or_insert(("C11|range|none".into(), format!("get_line_column_range({}..{}) is None for the in-bounds span of {} in {:?}", s0, e0, l.label, src)));
            }
            Some(r) => {
                if (r.start.line, r.start.column, r.end.line, r.end.column) != (rs.0, rs.1, re.0, re.1) {
                    // lines after one of ariadne's extra line terminators are the recorded finding
                    let sep = ['\u{b}', '\u{c}', '\u{85}', '\u{2028}', '\u{2029}'];
                    if !src[..e0].contains(sep) {
                        range_fail.get_or_insert((
                            "C11|range|differs".into(),
                            format!("get_line_column_range({}..{}) of {} = {}:{}..{}:{}, reference {}:{}..{}:{} in {:?}", s0, e0, l.label, r.start.line, r.start.column, r.end.line, r.end.column, rs.0, rs.1, re.0, re.1, src),
                        ));
                    }
                }
            }
        }
    }
    if let Some(f) = range_fail {
        fails.push(f);
    }
    // (2) every offset
    let mut probes = 0u64;
    let mut col_fail: Option<String> = None;
    let mut line_fail: Option<String> = None;
    for off in 0..=src.len() {
        if !src.is_char_boundary(off) {
            continue;
        }
        let Some((rl, rc)) = linecol::line_column(src, off) else { continue };
        probes += 1;
        match file.get_line_column(off) {
            None => {
                fails.push(("C11|line-column|none".into(), format!("get_line_column({}) is None for an in-bounds offset of {:?}", off, src)));
                break;
            }
            Some(lc) => {
                if lc.line != rl && line_fail.is_none() {
                    line_fail = Some(format!("offset {}: apollo line {} column {}, reference line {} column {} in {:?}", off, lc.line, lc.column, rl, rc, src));
                }
                if lc.line == rl && lc.column != rc && col_fail.is_none() {
                    col_fail = Some(format!("offset {}: apollo line {} column {}, reference line {} column {} in {:?}", off, lc.line, lc.column, rl, rc, src));
                }
            }
        }
    }
    ctx.sub_evals += probes;
    if let Some(d) = line_fail {
        // classify by the separator that confused the line table
        let sep = ['\u{b}', '\u{c}', '\u{85}', '\u{2028}', '\u{2029}'];
        let class = if src.chars().any(|c| sep.contains(&c)) { "extra-line-terminator" } else { "other" };
        fails.push((format!("C11|line|{}", class), d));
    }
    if let Some(d) = col_fail {
        let class = if src.is_ascii() { "ascii" } else { "multi-byte" };
        fails.push((format!("C11|column|{}", class), d));
    }
    // (3) diagnostics
    let sep = ['\u{b}', '\u{c}', '\u{85}', '\u{2028}', '\u{2029}'];
    let line_class = if src.chars().any(|c| sep.contains(&c)) { "|extra-line-terminator" } else { "" };
    if let Some(errs) = &errors {
        for d in errs.iter() {
            let Some(loc) = d.error.location() else { continue };
            let (s, e) = (loc.offset(), loc.end_offset());
            let (Some(rs), Some(re)) = (linecol::line_column(src, s), linecol::line_column(src, e)) else { continue };
            match d.line_column_range() {
                None => fails.push(("C11|diagnostic|no-range".into(), format!("diagnostic {} at {}..{} has no line_column_range", d.error, s, e))),
                Some(r) => {
                    if (r.start.line, r.start.column, r.end.line, r.end.column) != (rs.0, rs.1, re.0, re.1) {
                        let only_line = (r.start.column, r.end.column) == (rs.1, re.1);
                        let only_col = (r.start.line, r.end.line) == (rs.0, re.0);
                        fails.push((
                            format!("C11|diagnostic|range|{}", if only_col { "column".to_string() } else if only_line { format!("line{}", line_class) } else { format!("both{}", line_class) }),
                            format!("diagnostic span {}..{}: line_column_range {:?}..{:?}, reference {:?}..{:?} in {:?}", s, e, r.start, r.end, rs, re, src),
                        ));
                    }
                }
            }
            let j = d.to_json();
            if let Some(first) = j.locations.first() {
                if (first.line, first.column) != rs {
                    let only_col = first.line == rs.0;
                    fails.push((
                        format!("C11|diagnostic|json|{}", if only_col { "column".to_string() } else { format!("line{}", line_class) }),
                        format!("diagnostic span {}..{}: JSON location {:?}, reference {:?} in {:?}", s, e, first, rs, src),
                    ));
                }
            } else {
                fails.push(("C11|diagnostic|json|missing".into(), format!("diagnostic with a location has no JSON locations: {}", d.error)));
            }
        }
    }
    ctx.nontrivial = !src.is_ascii() || src.contains('\r');
    ctx.class(if errors.is_some() { "with-diagnostic" } else { "clean" });
    ctx.pick_failure(fails)
}

pub fn check(bytes: &[u8], ctx: &mut Ctx) -> Outcome {
    let mut c = Choices::new(bytes);
    let with_error = c.coin();
    let d = syntax::document(&mut c, &syntax::Cfg { max_depth: 2, ..Default::default() });
    let toks = printer::doc_tokens(&d);
    let mut text = join(&toks, &mut c);
    if with_error {
        text.push_str(c.pick(&[" }", " @", "\n)", " é", "\r\n\"unterminated"]));
    }
    ctx.set_sample(format!("{:?}", text));
    check_text(&text, ctx)
}
