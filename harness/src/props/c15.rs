//! C15 Valid schemas are internally consistent.
//!
//! Direct predicates over the PUBLIC fields of `Valid<Schema>`, written from the property
//! statement and the October 2021 spec (not from apollo's validation code).
use crate::apollo::schema as ap;
use crate::choices::Choices;
use crate::runner::{Ctx, Outcome, Prop, Tier};
use apollo_compiler::ast::{InputValueDefinition, Type};
use apollo_compiler::schema::ExtendedType;
use apollo_compiler::Schema;
use std::collections::{BTreeMap, BTreeSet};

pub fn prop() -> Prop {
    Prop::new(
        "C15",
        "Valid schemas are internally consistent",
        "Cases: the C14 stream (valid-by-construction schemas with 0-2 rule-targeted or neutral mutations, biased \
         towards few mutations); every schema that Schema::parse_and_validate ACCEPTS is inspected through the public \
         fields of Valid<Schema>: query root present; roots are distinct object types; referenced types exist with the \
         right kind; implementers satisfy field / argument / covariance / transitive-interface contracts; no non-null \
         input-object cycle; no user-defined name starts with `__`; built-in scalars in the type map = built-in scalars \
         referenced by a field, argument, input field or directive-definition argument. When validation pruned built-in \
         scalars, the schema reached through the API (into_inner, add references to some or all pruned scalars as a new \
         field / argument / input field / directive argument, validate again) is inspected with the same predicates \
         (class accepted/after-api-edit). Stage after-first-call: the same check in fresh worker processes of 250 cases each whose \
         first use of the library is one of seven legitimate but unusual calls (validating a schema whose built-in scalar \
         definitions were removed by hand, an invalid schema, an introspection query, standalone validation, ...): what a \
         process did first must not change any later result (lazily initialised process-wide tables). Non-trivial: accepted schema \
         with at least one interface implementation or input object; distinct by text. Classes: accepted/rejected x mutated, \
         pruned-scalar count.",
    )
    .random(
        "accepted-schemas",
        check,
        |t| if t == Tier::Quick { 300_000 } else { 3_000_000 },
        |t| if t == Tier::Quick { 700 } else { 1000 },
    )
    // the same check in fresh worker processes of 250 cases whose FIRST use of the library is one of a
    // menu of legitimate but unusual calls (see `first_call`): results must not depend on what a
    // process happened to do first (lazily initialised process-wide tables)
    .random(
        "after-first-call",
        check_after_first_call,
        |t| if t == Tier::Quick { 12_000 } else { 120_000 },
        |t| if t == Tier::Quick { 700 } else { 1000 },
    )
    .fresh_blocks(250)
    .text(check_text)
    .assumptions(&[
        "`user-defined name` = any name except the 8 introspection type names; `referenced` counts the introspection types and built-in directives too (they reference String and Boolean)",
    ])
}

const SCALARS: [&str; 5] = ["Int", "Float", "String", "Boolean", "ID"];
const INTROSPECTION: [&str; 8] = ["__Schema", "__Type", "__TypeKind", "__Field", "__InputValue", "__EnumValue", "__Directive", "__DirectiveLocation"];

#[derive(Clone, Copy, PartialEq, Eq, Debug)]
enum Kind {
    Scalar,
    Object,
    Interface,
    Union,
    Enum,
    Input,
}

fn kind(t: &ExtendedType) -> Kind {
    match t {
        ExtendedType::Scalar(_) => Kind::Scalar,
        ExtendedType::Object(_) => Kind::Object,
        ExtendedType::Interface(_) => Kind::Interface,
        ExtendedType::Union(_) => Kind::Union,
        ExtendedType::Enum(_) => Kind::Enum,
        ExtendedType::InputObject(_) => Kind::Input,
    }
}

/// A composite (object / interface) view used by the implementation predicates.
struct Comp<'a> {
    implements: Vec<&'a str>,
    fields: Vec<(&'a str, &'a Type, &'a [apollo_compiler::Node<InputValueDefinition>])>,
}

struct Facts<'a> {
    kinds: BTreeMap<&'a str, Kind>,
    comps: BTreeMap<&'a str, Comp<'a>>,
    union_members: BTreeMap<&'a str, Vec<&'a str>>,
}

impl Facts<'_> {
    /// IsValidImplementationFieldType (spec 3.6), over apollo's four-variant `Type`
    fn covariant(&self, field: &Type, implemented: &Type) -> bool {
        match (field, implemented) {
            // 1. field type non-null: strip it, strip the implemented one if non-null as well
            (Type::NonNullNamed(f), Type::NonNullNamed(i) | Type::Named(i)) => self.named_sub(f.as_str(), i.as_str()),
            (Type::NonNullList(f), Type::NonNullList(i) | Type::List(i)) => self.covariant(f, i),
            (Type::NonNullNamed(_), _) | (Type::NonNullList(_), _) => false,
            // 2. both lists
            (Type::List(f), Type::List(i)) => self.covariant(f, i),
            // 3.-5. named
            (Type::Named(f), Type::Named(i)) => self.named_sub(f.as_str(), i.as_str()),
            // 6. everything else, in particular a nullable type implementing a non-null one
            _ => false,
        }
    }
    fn named_sub(&self, sub: &str, sup: &str) -> bool {
        if sub == sup {
            return true;
        }
        match (self.kinds.get(sub), self.kinds.get(sup)) {
            (Some(Kind::Object), Some(Kind::Union)) => self.union_members.get(sup).map(|m| m.contains(&sub)).unwrap_or(false),
            (Some(Kind::Object | Kind::Interface), Some(Kind::Interface)) => self.comps.get(sub).map(|c| c.implements.contains(&sup)).unwrap_or(false),
            _ => false,
        }
    }
}

fn is_input(k: Kind) -> bool {
    matches!(k, Kind::Scalar | Kind::Enum | Kind::Input)
}
fn is_output(k: Kind) -> bool {
    !matches!(k, Kind::Input)
}

/// All violated predicates of the property, as (signature, detail).
pub fn inconsistencies(s: &Schema) -> Vec<(String, String)> {
    let mut out: Vec<(String, String)> = vec![];
    let mut fail = |sig: &str, detail: String| {
        if !out.iter().any(|(s, _)| s == sig) {
            out.push((format!("C15|{}", sig), detail));
        }
    };
    let mut facts = Facts { kinds: BTreeMap::new(), comps: BTreeMap::new(), union_members: BTreeMap::new() };
    for (name, t) in &s.types {
        facts.kinds.insert(name.as_str(), kind(t));
        if name.as_str() != t.name().as_str() {
            fail("map-key|type", format!("type map key {} holds a definition named {}", name, t.name()));
        }
        match t {
            ExtendedType::Object(o) => {
                facts.comps.insert(
                    name.as_str(),
                    Comp {
                        implements: o.implements_interfaces.iter().map(|c| c.name.as_str()).collect(),
                        fields: o.fields.iter().map(|(k, f)| (k.as_str(), &f.ty, f.arguments.as_slice())).collect(),
                    },
                );
            }
            ExtendedType::Interface(o) => {
                facts.comps.insert(
                    name.as_str(),
                    Comp {
                        implements: o.implements_interfaces.iter().map(|c| c.name.as_str()).collect(),
                        fields: o.fields.iter().map(|(k, f)| (k.as_str(), &f.ty, f.arguments.as_slice())).collect(),
                    },
                );
            }
            ExtendedType::Union(u) => {
                facts.union_members.insert(name.as_str(), u.members.iter().map(|c| c.name.as_str()).collect());
            }
            _ => {}
        }
    }

    // ---- roots ------------------------------------------------------------------------------
    let sd = &s.schema_definition;
    if sd.query.is_none() {
        fail("root|no-query", "schema_definition.query is None".into());
    }
    let roots: Vec<(&str, &str)> = [("query", &sd.query), ("mutation", &sd.mutation), ("subscription", &sd.subscription)]
        .into_iter()
        .filter_map(|(op, r)| r.as_ref().map(|c| (op, c.name.as_str())))
        .collect();
    for (i, (op, n)) in roots.iter().enumerate() {
        match facts.kinds.get(n) {
            Some(Kind::Object) => {}
            Some(k) => fail("root|not-object", format!("{} root {} is {:?}", op, n, k)),
            None => fail("root|undefined", format!("{} root {} is not in the type map", op, n)),
        }
        if let Some((op2, _)) = roots[..i].iter().find(|(_, m)| m == n) {
            fail("root|not-distinct", format!("{} and {} roots are both {}", op2, op, n));
        }
    }

    // ---- names, references and kinds ----------------------------------------------------------
    let mut referenced_scalars: BTreeSet<&str> = BTreeSet::new();
    let mut check_ref = |what: &str, owner: String, ty: &Type, want_input: bool, fail: &mut dyn FnMut(&str, String)| {
        let n = ty.inner_named_type().as_str();
        match facts.kinds.get(n) {
            None => fail(&format!("ref|undefined|{}", what), format!("{} has type {} whose named type is not in the type map", owner, ty)),
            Some(k) => {
                if want_input && !is_input(*k) {
                    fail(&format!("ref|not-input|{}", what), format!("{} has type {} which is {:?}", owner, ty, k));
                }
                if !want_input && !is_output(*k) {
                    fail(&format!("ref|not-output|{}", what), format!("{} has type {} which is {:?}", owner, ty, k));
                }
            }
        }
    };
    let reserved = |n: &str| n.starts_with("__");
    for (name, t) in &s.types {
        let tn = name.as_str();
        if reserved(tn) && !INTROSPECTION.contains(&tn) {
            fail("reserved|type", format!("type {}", tn));
        }
        match t {
            ExtendedType::Scalar(_) => {}
            ExtendedType::Object(_) | ExtendedType::Interface(_) => {
                let (fields, implements) = match t {
                    ExtendedType::Object(o) => (&o.fields, &o.implements_interfaces),
                    ExtendedType::Interface(o) => (&o.fields, &o.implements_interfaces),
                    _ => unreachable!(),
                };
                for (k, f) in fields {
                    if k != &f.name {
                        fail("map-key|field", format!("{}.{} holds a field named {}", tn, k, f.name));
                    }
                    if reserved(f.name.as_str()) {
                        fail("reserved|field", format!("{}.{}", tn, f.name));
                    }
                    check_ref("field", format!("{}.{}", tn, f.name), &f.ty, false, &mut fail);
                    if SCALARS.contains(&f.ty.inner_named_type().as_str()) {
                        referenced_scalars.insert(SCALARS[SCALARS.iter().position(|x| *x == f.ty.inner_named_type().as_str()).unwrap()]);
                    }
                    for a in &f.arguments {
                        if reserved(a.name.as_str()) {
                            fail("reserved|argument", format!("{}.{}({}:)", tn, f.name, a.name));
                        }
                        check_ref("argument", format!("{}.{}({}:)", tn, f.name, a.name), &a.ty, true, &mut fail);
                        if let Some(p) = SCALARS.iter().position(|x| *x == a.ty.inner_named_type().as_str()) {
                            referenced_scalars.insert(SCALARS[p]);
                        }
                    }
                }
                for i in implements {
                    match facts.kinds.get(i.name.as_str()) {
                        Some(Kind::Interface) => {}
                        Some(k) => fail("implements|not-interface", format!("{} implements {} which is {:?}", tn, i.name, k)),
                        None => fail("implements|undefined", format!("{} implements undefined {}", tn, i.name)),
                    }
                }
            }
            ExtendedType::Union(u) => {
                for m in &u.members {
                    match facts.kinds.get(m.name.as_str()) {
                        Some(Kind::Object) => {}
                        Some(k) => fail("union|member-not-object", format!("{} member {} is {:?}", tn, m.name, k)),
                        None => fail("union|member-undefined", format!("{} member {} undefined", tn, m.name)),
                    }
                }
            }
            ExtendedType::Enum(e) => {
                for (k, v) in &e.values {
                    if k != &v.value {
                        fail("map-key|enum-value", format!("{}.{} holds {}", tn, k, v.value));
                    }
                    if reserved(v.value.as_str()) {
                        fail("reserved|enum-value", format!("{}.{}", tn, v.value));
                    }
                }
            }
            ExtendedType::InputObject(io) => {
                for (k, f) in &io.fields {
                    if k != &f.name {
                        fail("map-key|input-field", format!("{}.{} holds {}", tn, k, f.name));
                    }
                    if reserved(f.name.as_str()) {
                        fail("reserved|input-field", format!("{}.{}", tn, f.name));
                    }
                    check_ref("input-field", format!("{}.{}", tn, f.name), &f.ty, true, &mut fail);
                    if let Some(p) = SCALARS.iter().position(|x| *x == f.ty.inner_named_type().as_str()) {
                        referenced_scalars.insert(SCALARS[p]);
                    }
                }
            }
        }
    }
    for (name, d) in &s.directive_definitions {
        if name != &d.name {
            fail("map-key|directive", format!("@{} holds @{}", name, d.name));
        }
        if reserved(d.name.as_str()) {
            fail("reserved|directive", format!("@{}", d.name));
        }
        for a in &d.arguments {
            if reserved(a.name.as_str()) {
                fail("reserved|directive-argument", format!("@{}({}:)", d.name, a.name));
            }
            check_ref("directive-argument", format!("@{}({}:)", d.name, a.name), &a.ty, true, &mut fail);
            if let Some(p) = SCALARS.iter().position(|x| *x == a.ty.inner_named_type().as_str()) {
                referenced_scalars.insert(SCALARS[p]);
            }
        }
    }

    // ---- implementation contracts ---------------------------------------------------------------
    for (tn, c) in &facts.comps {
        for iname in &c.implements {
            if facts.kinds.get(iname) != Some(&Kind::Interface) {
                continue;
            }
            if iname == tn {
                fail("impl|self", format!("interface {} implements itself", tn));
                continue;
            }
            let Some(i) = facts.comps.get(iname) else { continue };
            for tr in &i.implements {
                if !c.implements.contains(tr) {
                    fail("impl|transitive", format!("{} implements {} but not its interface {}", tn, iname, tr));
                }
            }
            for (fname, ity, iargs) in &i.fields {
                let Some((_, fty, fargs)) = c.fields.iter().find(|(n, _, _)| n == fname) else {
                    fail("impl|field-missing", format!("{} implements {} but has no field {}", tn, iname, fname));
                    continue;
                };
                if !facts.covariant(fty, ity) {
                    fail("impl|field-type", format!("{}.{}: {} does not implement {}.{}: {}", tn, fname, fty, iname, fname, ity));
                }
                for ia in iargs.iter() {
                    match fargs.iter().find(|a| a.name == ia.name) {
                        None => fail("impl|argument-missing", format!("{}.{} lacks argument {} of {}.{}", tn, fname, ia.name, iname, fname)),
                        Some(a) => {
                            if *a.ty != *ia.ty {
                                fail("impl|argument-type", format!("{}.{}({}: {}) vs {}.{}({}: {})", tn, fname, a.name, a.ty, iname, fname, ia.name, ia.ty));
                            }
                        }
                    }
                }
                for a in fargs.iter() {
                    if !iargs.iter().any(|ia| ia.name == a.name) && a.ty.is_non_null() && a.default_value.is_none() {
                        fail("impl|extra-required-argument", format!("{}.{}({}: {}) is required but not declared by {}.{}", tn, fname, a.name, a.ty, iname, fname));
                    }
                }
            }
        }
    }

    // ---- input object cycles through non-null named fields -----------------------------------------
    {
        let mut edges: BTreeMap<&str, Vec<&str>> = BTreeMap::new();
        for (name, t) in &s.types {
            if let ExtendedType::InputObject(io) = t {
                let e = edges.entry(name.as_str()).or_default();
                for f in io.fields.values() {
                    if let Type::NonNullNamed(n) = &*f.ty {
                        if facts.kinds.get(n.as_str()) == Some(&Kind::Input) {
                            e.push(n.as_str());
                        }
                    }
                }
            }
        }
        // a node is on a cycle iff it can reach itself
        for start in edges.keys() {
            let mut stack: Vec<&str> = edges[start].clone();
            let mut seen: BTreeSet<&str> = BTreeSet::new();
            while let Some(n) = stack.pop() {
                if n == *start {
                    fail("input-cycle", format!("input object {} reaches itself through non-null fields", start));
                    break;
                }
                if seen.insert(n) {
                    stack.extend(edges.get(n).map(|v| v.as_slice()).unwrap_or(&[]));
                }
            }
        }
    }

    // ---- built-in scalars: present = referenced ------------------------------------------------------
    for sc in SCALARS {
        let present = s.types.contains_key(sc);
        let referenced = referenced_scalars.contains(sc);
        if present && !referenced {
            fail("builtin-scalar|present-unreferenced", format!("{} is in the type map but no field, argument, input field or directive argument has that type", sc));
        }
        if !present && referenced {
            fail("builtin-scalar|referenced-absent", format!("{} is referenced but not in the type map", sc));
        }
        if present && !matches!(s.types.get(sc), Some(ExtendedType::Scalar(_))) {
            fail("builtin-scalar|not-scalar", format!("{} is not a scalar", sc));
        }
    }
    out
}

fn run(text: &str, mutated: bool, ctx: &mut Ctx, edits: Option<&mut Choices>) -> Outcome {
    let valid = match ap::parse_and_validate(text) {
        Ok(v) => v,
        Err(_) => {
            ctx.class(if mutated { "rejected/mutated" } else { "rejected/unmutated" });
            return Outcome::Pass;
        }
    };
    ctx.class(if mutated { "accepted/mutated" } else { "accepted/unmutated" });
    let schema: &Schema = &valid;
    let pruned = SCALARS.iter().filter(|s| !schema.types.contains_key(**s)).count();
    ctx.class(format!("pruned-builtin-scalars:{}", pruned));
    let has_impl = schema.types.values().any(|t| match t {
        ExtendedType::Object(o) => !o.implements_interfaces.is_empty() && !o.name.starts_with('M'),
        ExtendedType::Interface(o) => !o.implements_interfaces.is_empty() && !o.name.starts_with('M'),
        _ => false,
    });
    let has_input = schema.types.values().any(|t| matches!(t, ExtendedType::InputObject(_)));
    if has_impl {
        ctx.class("has-interface-implementation");
    }
    if has_input {
        ctx.class("has-input-object");
    }
    ctx.nontrivial = has_impl || has_input;
    let fails = inconsistencies(schema);
    let mut fails: Vec<(String, String)> = fails.into_iter().map(|(s, d)| (s, format!("{}\n{}", d, text))).collect();
    // "all schemas accepted by validation" includes the ones reached through the API: unwrap the valid
    // schema, add references to built-in scalars that validation pruned (C16's edits, which keep a
    // valid schema valid), validate again and inspect the result with the same predicates
    if let (Some(c), true) = (edits, fails.is_empty()) {
        let missing: Vec<&str> = SCALARS.iter().copied().filter(|s| !schema.types.contains_key(*s)).collect();
        if !missing.is_empty() && c.bool(170) {
            let mut s2 = valid.clone().into_inner();
            let mut plan = vec![];
            let all = c.bool(128);
            for (k, sc) in missing.iter().enumerate() {
                if all || c.coin() {
                    plan.push(super::c16::edit(c, &mut s2, sc, k));
                }
            }
            if !plan.is_empty() {
                match s2.validate() {
                    Ok(v2) => {
                        ctx.class("accepted/after-api-edit");
                        for (sig, d) in inconsistencies(&v2) {
                            fails.push((format!("{}|after-edit", sig), format!("{}\nafter into_inner + {:?} + validate, starting from\n{}", d, plan, text)));
                        }
                    }
                    Err(_) => ctx.class("rejected/after-api-edit"),
                }
            }
        }
    }
    ctx.pick_failure(fails)
}

/// What a fresh process does before its first case of the `after-first-call` stage. Every entry is a
/// legitimate use of the public API.
fn first_call(kind: u64) -> &'static str {
    use apollo_compiler::{ExecutableDocument, Schema};
    match kind % 7 {
        0 => "nothing",
        1 => {
            // validate a schema whose built-in scalar definitions were removed by hand (validation
            // documents that it inserts the missing ones that are referenced)
            let mut s = Schema::parse("type Query { a: Int }", "w.graphql").expect("builds");
            s.types.retain(|n, _| !SCALARS.contains(&n.as_str()));
            let _ = s.validate();
            "validate(schema without built-in scalar definitions)"
        }
        2 => {
            let mut s = Schema::parse("type Query { a: String b: ID }", "w.graphql").expect("builds");
            s.types.retain(|n, _| n != "Float" && n != "Boolean");
            let _ = s.validate();
            "validate(schema without Float and Boolean definitions)"
        }
        3 => {
            let _ = Schema::parse_and_validate("type Query { a: Nope } extend type X { b: Int }", "w.graphql");
            "parse_and_validate(invalid schema)"
        }
        4 => {
            let s = Schema::parse_and_validate("type Query { a: Int }", "w.graphql").expect("valid");
            let _ = ExecutableDocument::parse_and_validate(&s, "{ __schema { types { name } } a }", "q.graphql");
            "parse_and_validate(introspection query)"
        }
        5 => {
            let _ = apollo_compiler::ast::Document::parse("{ a @skip(if: true) }", "d.graphql").map(|d| d.validate_standalone_executable());
            "validate_standalone_executable"
        }
        _ => {
            let s = Schema::parse_and_validate("scalar S type Query { a: S }", "w.graphql").expect("valid");
            let _ = s.into_inner().validate();
            "validate, into_inner, validate(schema using no built-in scalar)"
        }
    }
}

pub fn check_after_first_call(bytes: &[u8], ctx: &mut Ctx) -> Outcome {
    static FIRST: std::sync::OnceLock<&'static str> = std::sync::OnceLock::new();
    let block = ctx.index / 250;
    let what = *FIRST.get_or_init(|| first_call(block));
    ctx.class(format!("first-call:{}", what));
    match check(bytes, ctx) {
        Outcome::Fail { sig, detail } => Outcome::Fail { sig: format!("{}|after-first-call", sig), detail: format!("{}\n(the first call of this process was: {})", detail, what) },
        o => o,
    }
}

pub fn check_text(text: &str, ctx: &mut Ctx) -> Outcome {
    ctx.set_sample(text.to_string());
    run(text, false, ctx, None)
}

pub fn check(bytes: &[u8], ctx: &mut Ctx) -> Outcome {
    let mut c = Choices::new(bytes);
    let (text, labels) = super::c14::gen_case_weighted(&mut c, ctx.tier, &[45, 40, 15]);
    ctx.set_sample(format!("# mutations: {:?}\n{}", labels, text));
    run(&text, !labels.is_empty(), ctx, Some(&mut c))
}
