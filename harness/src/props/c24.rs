//! C24 Introspection agrees with the reference implementation.
//!
//! A valid-by-construction schema (gen::schema) is printed, validated by apollo, and the standard
//! full introspection query (refmodel::introspect::INTROSPECTION_QUERY) is run through
//! `introspection::partial_execute`. The response is compared with the expectation that
//! refmodel::introspect computes from the REFERENCE schema model (never from apollo's Schema).
//! In a second mode the same query also selects `__typename` and concrete fields of the query
//! root (directly, in an inline fragment or in a named fragment): `__typename` is answered,
//! the concrete fields must be absent from `data`, and there must be no errors.
//!
//! Normalised away (see refmodel/introspect.rs for the justification of each):
//!   * order of `__Schema.types`, `__Schema.directives`, `__Type.possibleTypes`;
//!   * member order (fields, enum values, arguments, locations) of built-in definitions;
//!   * descriptions of built-in types, directives and their members (any string or null);
//!   * `defaultValue` TEXT where graphql-js's exact text is not certain (floats, IDs, custom
//!     scalars, strings with escapes or non-ASCII, a scalar for a list, partial or reordered
//!     input objects): there the coerced VALUE of apollo's text must equal the literal's;
//!   * key order inside response objects (JSON objects are unordered).
use crate::apollo::introspect::{self as ap, ExecObs};
use crate::choices::{fnv, Choices};
use crate::gen::schema as gs;
use crate::refmodel::ast::*;
use crate::refmodel::introspect as ri;
use crate::refmodel::parser::parse_document;
use crate::refmodel::printer::print_document;
use crate::refmodel::schema::RefSchema;
use crate::runner::{Ctx, Outcome, Prop, Tier};

pub fn prop() -> Prop {
    Prop::new(
        "C24",
        "Introspection agrees with the reference implementation",
        "Cases: a valid-by-construction schema (descriptions incl. block strings, @deprecated with/without reason on \
         fields, arguments, input fields and enum values, default values of every kind, interfaces implementing \
         interfaces, unions, @specifiedBy scalars, repeatable directives, optional explicit schema definition with \
         description, in half of the cases split into type extensions placed anywhere, possibly several per type and \
         adding interfaces) and the standard full introspection query; in \
         ~40% of the cases additionally the same query with __typename and concrete query-root fields selected. \
         Oracle: expectation computed from the reference schema model (October 2021 section 4 / graphql-js v16), \
         compared after the documented normalisation; no `errors`; concrete root fields absent. Non-trivial: the \
         schema has a deprecation, a default value, or an interface implemented by >= 2 types; distinct by schema \
         text and mode.",
    )
    .random("schemas", check, |t| if t == Tier::Quick { 150_000 } else { 1_500_000 }, |t| if t == Tier::Quick { 600 } else { 1000 })
    .text(check_text)
    .assumptions(&[
        "graphql-js is not installed: the expectation is a reference written from the October 2021 spec and graphql-js v16 behaviour; where graphql-js's exact output is not certain the comparison is weakened (listed in the module documentation), never guessed",
        "Int/Float/ID are expected in __Schema.types iff a field, argument or input field of a user type or an argument of a user directive has that type (spec 3.5); String and Boolean always",
        "default values: text compared for canonical literals, coerced value otherwise",
        "`@deprecated(reason: null)` is never generated (spec and graphql-js disagree on its meaning)",
        "schemas rejected by apollo's validation are skipped (none expected; see the skip counter)",
    ])
}

/// How the standard query is augmented with root selections that are not schema introspection.
#[derive(Clone, Debug, Default)]
pub struct Extra {
    pub typename: bool,
    /// selections on the query root type, e.g. `c0: name` or `c1: node { __typename }`
    pub concrete: Vec<String>,
    /// 0 = directly, 1 = inside `... on Root { }`, 2 = inside a named fragment
    pub wrap: usize,
    pub before: bool,
}

impl Extra {
    fn is_empty(&self) -> bool {
        !self.typename && self.concrete.is_empty()
    }
}

pub fn augmented_query(root: &str, x: &Extra) -> String {
    let mut sels = String::new();
    if x.typename {
        sels.push_str("__typename ");
    }
    for s in &x.concrete {
        sels.push_str(s);
        sels.push(' ');
    }
    let (inject, tail) = match x.wrap {
        0 => (sels.clone(), String::new()),
        1 => (format!("... on {} {{ {} }}", root, sels), String::new()),
        _ => ("...ExtraRootFields".to_string(), format!("\nfragment ExtraRootFields on {} {{ {} }}\n", root, sels)),
    };
    let q = ri::INTROSPECTION_QUERY;
    let head = "query IntrospectionQuery {";
    let at = q.find(head).expect("query head") + head.len();
    let mut out = String::new();
    if x.before {
        out.push_str(&q[..at]);
        out.push_str("\n  ");
        out.push_str(&inject);
        out.push_str(&q[at..]);
    } else {
        // after `__schema { ... }`: the operation's closing brace is the first "\n}\n"
        let close = q.find("\n}\n").expect("operation end");
        out.push_str(&q[..close]);
        out.push_str("\n  ");
        out.push_str(&inject);
        out.push_str(&q[close..]);
    }
    out.push_str(&tail);
    out
}

/// Selections on concrete fields of the query root that need no arguments.
fn concrete_candidates(s: &RefSchema) -> Vec<String> {
    let Some(root) = s.query.as_deref().and_then(|n| s.get(n)) else { return vec![] };
    let mut out = vec![];
    for (i, f) in root.fields.iter().enumerate() {
        if f.args.iter().any(|a| a.ty.is_non_null() && a.default.is_none()) {
            continue;
        }
        let sub = if s.is_composite(f.ty.inner_name()) { " { __typename }" } else { "" };
        out.push(format!("c{}: {}{}", i, f.name, sub));
    }
    out
}

fn has_deprecation(s: &RefSchema) -> bool {
    let dep = |ds: &[Directive]| ds.iter().any(|d| d.name == "deprecated");
    s.types.iter().filter(|t| !s.is_builtin_type(&t.name)).any(|t| {
        t.fields.iter().any(|f| dep(&f.directives) || f.args.iter().any(|a| dep(&a.directives))) || t.values.iter().any(|v| dep(&v.directives)) || t.input_fields.iter().any(|f| dep(&f.directives))
    })
}

fn defaults(s: &RefSchema) -> (usize, usize) {
    // (defaults compared as text, defaults compared as value)
    let mut text = 0;
    let mut value = 0;
    let mut see = |iv: &InputValueDef| {
        if let Some(v) = &iv.default {
            if ri::certain_default_text(s, &iv.ty, v).is_some() {
                text += 1;
            } else {
                value += 1;
            }
        }
    };
    for t in s.types.iter().filter(|t| !s.is_builtin_type(&t.name)) {
        for f in &t.fields {
            f.args.iter().for_each(&mut see);
        }
        t.input_fields.iter().for_each(&mut see);
    }
    for d in s.user_directives.iter().filter_map(|n| s.directive(n)) {
        d.args.iter().for_each(&mut see);
    }
    (text, value)
}

fn shared_interface(s: &RefSchema) -> bool {
    s.types.iter().filter(|t| t.kind == TypeKind::Interface).any(|i| s.types.iter().filter(|t| t.implements.iter().any(|n| *n == i.name)).count() >= 2)
}

fn run_one(s: &RefSchema, apollo_schema: &apollo_compiler::validation::Valid<apollo_compiler::Schema>, query: &str, augmented: bool, ctx: &mut Ctx, fails: &mut Vec<(String, String)>) -> Result<(), &'static str> {
    let qdoc = parse_document(query).map_err(|_| "reference parser rejects the query (harness bug)")?;
    let expected = match ri::execute(s, &qdoc) {
        Ok(e) => e,
        Err(e) => {
            if ctx.strict {
                eprintln!("reference cannot answer: {}", e);
            }
            return Err("reference does not support this schema/query");
        }
    };
    ctx.sub_evals += 1;
    let mode = if augmented { "query with concrete root fields" } else { "standard query" };
    match ap::partial_execute(apollo_schema, query) {
        ExecObs::Invalid(e) => {
            if augmented {
                if ctx.strict {
                    eprintln!("augmented query rejected: {}\n{}", e, query);
                }
                return Err("augmented query rejected by apollo validation");
            }
            // the standard introspection query is valid against every schema
            fails.push(("C24|query-invalid".into(), format!("the standard introspection query does not validate against the schema: {}", e)));
        }
        ExecObs::NoOperation => fails.push(("C24|no-operation".into(), "operations.get(None) fails for the introspection query".into())),
        ExecObs::RequestError(m) => {
            let norm: String = m.split(['`', '"']).step_by(2).collect::<Vec<_>>().join("_");
            fails.push((format!("C24|request-error|{}", norm.trim()), format!("{}: partial_execute returned a request error: {}", mode, m)));
        }
        ExecObs::Response(resp) => {
            for d in ri::compare(s, &expected, &resp) {
                if d.kind.starts_with("harness|") {
                    // the reference cannot interpret its own expectation: never an alarm
                    if ctx.strict {
                        eprintln!("{}: {}", d.kind, d.detail);
                    }
                    return Err("reference cannot coerce a generated default value");
                }
                let sig = format!("C24|{}", d.kind);
                if !fails.iter().any(|(x, _)| *x == sig) {
                    fails.push((sig, format!("{}: {}", mode, d.detail)));
                }
            }
        }
    }
    Ok(())
}

pub fn evaluate(doc: &Document, extra: &Extra, ctx: &mut Ctx) -> Outcome {
    let sdl = print_document(doc);
    ctx.set_sample(sdl.clone());
    let s = RefSchema::from_document(doc);
    let Some(root) = s.query.clone() else {
        return ctx.skip("schema without a query root");
    };
    ctx.key = Some(fnv(format!("{:?}|{}", extra, sdl).as_bytes()));
    let (dt, dv) = defaults(&s);
    let dep = has_deprecation(&s);
    let shared = shared_interface(&s);
    ctx.nontrivial = dep || dt + dv > 0 || shared;
    ctx.class(if extra.is_empty() { "standard-query" } else { "standard+augmented-query" });
    if dep {
        ctx.class("has-deprecation");
    }
    if dt > 0 {
        ctx.class("has-default-compared-as-text");
    }
    if dv > 0 {
        ctx.class("has-default-compared-as-value");
    }
    if shared {
        ctx.class("interface-with-2+-implementers");
    }
    if doc.defs.iter().any(|d| matches!(d, Definition::Type(t) if t.is_ext)) {
        ctx.class("has-type-extensions");
        let mut names: Vec<&str> = doc.defs.iter().filter_map(|d| if let Definition::Type(t) = d { if t.is_ext { Some(t.name.as_str()) } else { None } } else { None }).collect();
        names.sort();
        if names.windows(2).any(|w| w[0] == w[1]) {
            ctx.class("type-with-several-extensions");
        }
        if doc.defs.iter().any(|d| matches!(d, Definition::Type(t) if t.is_ext && !t.implements.is_empty())) {
            ctx.class("extension-adds-interface");
        }
    }
    if s.schema_description.is_some() {
        ctx.class("schema-description");
    }

    let apollo_schema = match ap::schema(&sdl) {
        Ok(x) => x,
        Err(e) => {
            if ctx.strict {
                eprintln!("schema rejected by apollo: {}", e);
            }
            return ctx.skip("schema rejected by apollo validation");
        }
    };
    let mut fails: Vec<(String, String)> = vec![];
    if let Err(why) = run_one(&s, &apollo_schema, ri::INTROSPECTION_QUERY, false, ctx, &mut fails) {
        return ctx.skip(why);
    }
    if !extra.is_empty() {
        let q = augmented_query(&root, extra);
        if let Err(why) = run_one(&s, &apollo_schema, &q, true, ctx, &mut fails) {
            return ctx.skip(why);
        }
    }
    ctx.pick_failure(fails)
}

/// Further validity-preserving splitting on top of gen::schema::split_extensions, so that a type
/// can have SEVERAL extensions, placed before and after its definition: a suffix of the fields of
/// a definition or extension moves into a new extension, and a suffix of the `implements` list of
/// a definition moves into a new (otherwise empty) extension. The merged order of components is
/// whatever the document order implies (definition first, then extensions in document order).
pub fn split_more(c: &mut Choices, doc: &mut Document) -> usize {
    let mut extra: Vec<Definition> = vec![];
    for d in doc.defs.iter_mut() {
        let Definition::Type(t) = d else { continue };
        if !matches!(t.kind, TypeKind::Object | TypeKind::Interface) {
            continue;
        }
        if t.fields.len() > 1 && c.bool(90) {
            let k = 1 + c.choose(t.fields.len() - 1);
            let mut e = TypeDef::new(t.kind, &t.name);
            e.is_ext = true;
            e.fields = t.fields.split_off(k);
            extra.push(Definition::Type(e));
        }
        if !t.is_ext && !t.implements.is_empty() && c.bool(90) {
            let k = c.choose(t.implements.len());
            let mut e = TypeDef::new(t.kind, &t.name);
            e.is_ext = true;
            e.implements = t.implements.split_off(k);
            extra.push(Definition::Type(e));
        }
    }
    let n = extra.len();
    for e in extra {
        let i = c.choose(doc.defs.len() + 1);
        doc.defs.insert(i, e);
    }
    n
}

pub fn check(bytes: &[u8], ctx: &mut Ctx) -> Outcome {
    // A prefix of the choice vector drives the mode and the splitting into extensions, the rest
    // drives the schema, so that a long schema cannot starve the former of choice bytes.
    let (head, tail) = bytes.split_at(bytes.len().min(48));
    let mut m = Choices::new(head);
    let want_ext = m.coin();
    let want_more = m.coin();
    let want_extra = m.bool(110);
    let typename = m.coin();
    let wrap = m.choose(3);
    let before = m.coin();
    let picks = [m.byte(), m.byte(), m.byte()];
    let n_picks = m.small(2);
    let want_schema_desc = m.bool(70);
    let mut c = Choices::new(tail);
    let opts = gs::Opts { max_types: if ctx.tier == Tier::Quick { 3 } else { 4 }, ..gs::Opts::default() };
    let mut doc = gs::schema(&mut c, &opts);
    if want_schema_desc {
        // gen::schema describes the schema definition rarely: give it (or add) a description
        let d = crate::gen::strlit::description(&mut m);
        match doc.defs.iter_mut().find_map(|d| if let Definition::Schema(sd) = d { if !sd.is_ext { Some(sd) } else { None } } else { None }) {
            Some(sd) => sd.description = Some(d),
            None => {
                let s = RefSchema::from_document(&doc);
                let roots: Vec<(OpType, String)> = OpType::ALL.iter().filter_map(|op| s.root(*op).map(|n| (*op, n.to_string()))).collect();
                let at = m.choose(doc.defs.len() + 1);
                doc.defs.insert(at, Definition::Schema(SchemaDef { is_ext: false, description: Some(d), directives: vec![], roots }));
            }
        }
    }
    if want_ext {
        gs::split_extensions(&mut m, &mut doc);
        if want_more {
            split_more(&mut m, &mut doc);
        }
    }
    let mut extra = Extra::default();
    if want_extra {
        let s = RefSchema::from_document(&doc);
        let cands = concrete_candidates(&s);
        extra.typename = typename;
        let n = if cands.is_empty() { 0 } else { n_picks + if typename { 0 } else { 1 } };
        for b in picks.iter().take(n) {
            let pick = cands[(*b as usize * cands.len()) >> 8].clone();
            if !extra.concrete.contains(&pick) {
                extra.concrete.push(pick);
            }
        }
        extra.wrap = wrap;
        extra.before = before;
    }
    evaluate(&doc, &extra, ctx)
}

/// Replay of `{"text": "<schema SDL>"}`: the standard query, and the query augmented with
/// `__typename` and the first argument-free concrete root field.
pub fn check_text(sdl: &str, ctx: &mut Ctx) -> Outcome {
    let doc = match parse_document(sdl) {
        Ok(d) => d,
        Err(e) => return Outcome::fail("C24|repro|unparseable", format!("{:?}", e)),
    };
    let s = RefSchema::from_document(&doc);
    let extra = Extra { typename: true, concrete: concrete_candidates(&s).into_iter().take(1).collect(), wrap: 1, before: false };
    evaluate(&doc, &extra, ctx)
}

#[cfg(test)]
mod tests {
    use super::*;
    #[test]
    fn augmented_queries_parse() {
        for wrap in 0..3 {
            for before in [false, true] {
                let x = Extra { typename: true, concrete: vec!["c0: a".into(), "c1: node { __typename }".into()], wrap, before };
                let q = augmented_query("RootQ", &x);
                let d = parse_document(&q).unwrap_or_else(|e| panic!("{q}\n{e:?}"));
                let op = crate::refmodel::depth::first_operation(&d).unwrap();
                assert_eq!(op.selection_set.len(), if wrap == 0 { 4 } else { 2 }, "{q}");
                assert_eq!(matches!(op.selection_set[0], Selection::Field(ref f) if f.name == "__schema"), !before);
            }
        }
    }
}
