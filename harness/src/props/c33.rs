//! C33 Generated responses match the operation's shape (apollo-smith `ResponseBuilder`).
//!
//! Case = valid (schema, operation, variables) from `gen::exec_ops`, restricted as the property
//! says: every interface has an implementing object (unions always have members), no
//! `@skip`/`@include`, no `__schema`/`__type`; times a randomness source (`Unstructured` over
//! choice bytes, or a seeded `RandProvider`), a null ratio (unset, 1/4, 1/2, 1/1) and list-size
//! bounds. The generated `data` is checked by an independent shape checker over the REFERENCE
//! schema model and the reference CollectFields; then the operation is executed by apollo with
//! resolvers that serve exactly that data, which must reproduce it without errors.

use crate::apollo::exec::{self, from_apollo};
use crate::choices::Choices;
use crate::gen::exec_ops::{self, Case};
use crate::gen::worlds::{Entry, TableResolvers, World};
use crate::props::c26::{self, dev_scale};
use crate::refmodel::ast::*;
use crate::refmodel::coerce::{Coercer, Fail, Json, JsonMap};
use crate::refmodel::executor::{self as rx, path_string, Path, Seg};
use crate::refmodel::parser::parse_document;
use crate::refmodel::schema::{RefSchema, BUILTIN_SCALARS};
use crate::runner::{catch, normalise_panic, Ctx, Outcome, Prop, Tier};
use apollo_compiler::response::JsonMap as AJsonMap;
use apollo_smith::{RandProvider, ResponseBuilder, Unstructured};

pub fn prop() -> Prop {
    Prop::new(
        "C33",
        "Generated responses match the operation's shape",
        "Cases: a valid generated schema in which every abstract type has a possible object type, enriched with list \
         fields of every nullability pattern up to three levels; a valid query or mutation without @skip/@include \
         (nested objects, lists, interfaces / unions with inline and named fragments and type conditions, aliases, \
         merged duplicate keys, __typename, arguments); times randomness source (arbitrary::Unstructured over choice \
         bytes | RandProvider over a seeded StdRng) x null ratio (unset, 1/4, 1/2, 1/1) x list bounds (min 0..2, \
         max min..min+3). Oracle: independent shape checker over the reference schema model (some possible concrete \
         type whose reference-collected response keys are exactly the object's keys and equals every __typename; \
         non-null positions non-null by the CONCRETE type's field definition; list nesting equal to the field type's; \
         defined enum values; built-in scalars of the right JSON kind), then apollo execution with resolvers serving \
         that data reproduces it with no errors. Non-trivial: the operation selects a nested list or an abstract type; \
         distinct by operation + schema + configuration + generated data.",
    )
    .random("responses", check, |t| dev_scale(if t == Tier::Quick { 400_000 } else { 8_000_000 }), |t| if t == Tier::Quick { 900 } else { 1500 })
    .text(check_text)
    .assumptions(&[
        "the type of a response position is the field definition of the CONCRETE object type chosen there (ExecuteSelectionSet looks the field up on objectType), which may be narrower than the interface's definition the selection was written against",
        "Float positions accept any JSON number in the shape check; the execution step then applies apollo's result coercion (float-typed numbers only)",
        "list lengths are not checked against the configured bounds (not part of the property statement); they are classified",
        "ResponseBuilder returning Err is not a generated response: counted (class build-error), not failed",
        "ResponseBuilder has no size limit, so the configured maximum list size is lowered until the worst-case response of the operation has at most 20000 values",
        "cases where the reference executor over the served data raises field errors of its own (argument coercion: an explicit null variable for a non-null argument) are skipped for the execution step",
    ])
}

fn opts(tier: Tier) -> exec_ops::Opts {
    exec_ops::Opts { conditions: false, introspection_meta: false, fill_abstract_p: 256, ..c26::opts(tier) }
}

#[derive(Clone, Debug)]
pub struct Config {
    /// 0 = Unstructured over `bytes`, 1 = RandProvider(StdRng::seed_from_u64(seed))
    pub source: usize,
    pub seed: u64,
    pub bytes: Vec<u8>,
    pub null_ratio: Option<(u32, u32)>,
    pub min_len: usize,
    pub max_len: usize,
}

impl Config {
    fn render(&self) -> String {
        format!(
            "source={} null_ratio={} list={}..={}",
            if self.source == 0 { format!("unstructured:{}", crate::choices::hex(&self.bytes)) } else { format!("rand:{}", self.seed) },
            match self.null_ratio {
                Some((n, d)) => format!("{}/{}", n, d),
                None => "none".to_string(),
            },
            self.min_len,
            self.max_len
        )
    }
}

fn config(c: &mut Choices) -> Config {
    let source = c.weighted(&[60, 40]);
    let null_ratio = match c.weighted(&[30, 35, 20, 15]) {
        0 => None,
        1 => Some((1, 4)),
        2 => Some((1, 2)),
        _ => Some((1, 1)),
    };
    let min_len = c.weighted(&[50, 35, 15]);
    let max_len = min_len + c.choose(4);
    let seed = c.u64();
    let bytes = c.rest().to_vec();
    Config { source, seed, bytes, null_ratio, min_len, max_len }
}

// ------------------------------------------------------------------------------------------------
// Shape checker (reference side)

#[derive(Clone, Debug)]
pub enum Shaped {
    Null,
    Leaf(Json),
    List(Vec<Shaped>),
    /// concrete type, (response key, field name, value)
    Object(String, Vec<(String, String, Shaped)>),
}

struct Checker<'a> {
    schema: &'a RefSchema,
    doc: &'a Document,
    variables: &'a JsonMap,
    unspecified: bool,
}

impl<'a> Checker<'a> {
    fn object(&mut self, v: &serde_json::Map<String, Json>, static_type: &str, sets: &[&'a [Selection]], path: &mut Path) -> Result<Shaped, (String, String)> {
        let possible = self.schema.possible_types(static_type);
        let mut first_err: Option<(String, String)> = None;
        let mut typename_err: Option<(String, String)> = None;
        let mut keys_seen: Vec<String> = vec![];
        for t in &possible {
            let (grouped, unspec) = rx::collect_fields(self.schema, self.doc, self.variables, t, sets);
            self.unspecified |= unspec;
            let keys: Vec<&str> = grouped.iter().map(|(k, _)| k.as_str()).collect();
            keys_seen.push(format!("{}: {:?}", t, keys));
            let same_keys = keys.len() == v.len() && keys.iter().all(|k| v.contains_key(*k));
            if !same_keys {
                continue;
            }
            // every __typename must name this type
            let typename_ok = grouped.iter().all(|(k, fs)| fs[0].name != "__typename" || v.get(k) == Some(&Json::String(t.clone())));
            if !typename_ok {
                // reported only if no candidate gets further
                if typename_err.is_none() {
                    typename_err = Some(("C33|shape|typename".into(), format!("at {}: keys fit {} but __typename says otherwise: {}", path_string(path), t, Json::Object(v.clone()))));
                }
                continue;
            }
            let mut fields = vec![];
            let mut err = None;
            for (k, fs) in &grouped {
                let name = &fs[0].name;
                if name == "__typename" {
                    fields.push((k.clone(), name.clone(), Shaped::Leaf(v[k].clone())));
                    continue;
                }
                let Some(def) = self.schema.field(t, name) else {
                    self.unspecified = true;
                    continue;
                };
                path.push(Seg::Key(k.clone()));
                let r = self.value(&v[k], &def.ty, fs, path);
                path.pop();
                match r {
                    Ok(s) => fields.push((k.clone(), name.clone(), s)),
                    Err(e) => {
                        err = Some(e);
                        break;
                    }
                }
            }
            match err {
                None => return Ok(Shaped::Object(t.clone(), fields)),
                Some(e) => {
                    if first_err.is_none() {
                        first_err = Some(e);
                    }
                }
            }
        }
        Err(first_err.or(typename_err).unwrap_or_else(|| {
            let got: Vec<&String> = v.keys().collect();
            ("C33|shape|keys".into(), format!("at {}: keys {:?} are the collected response keys of no possible type of {} ({})", path_string(path), got, static_type, keys_seen.join("; ")))
        }))
    }

    fn value(&mut self, v: &Json, ty: &Type, fields: &[&'a Field], path: &mut Path) -> Result<Shaped, (String, String)> {
        match ty {
            Type::NonNull(inner) => {
                if v.is_null() {
                    return Err(("C33|shape|null-at-non-null".into(), format!("null at {} of type {}", path_string(path), ty.print())));
                }
                self.value(v, inner, fields, path)
            }
            _ if v.is_null() => Ok(Shaped::Null),
            Type::List(item) => {
                let Json::Array(items) = v else {
                    return Err(("C33|shape|list-nesting".into(), format!("{} at {} where type {} needs a list", v, path_string(path), ty.print())));
                };
                let mut out = vec![];
                for (i, x) in items.iter().enumerate() {
                    path.push(Seg::Index(i));
                    let r = self.value(x, item, fields, path);
                    path.pop();
                    out.push(r?);
                }
                Ok(Shaped::List(out))
            }
            Type::Named(n) => {
                let kind = self.schema.kind(n);
                let custom = kind == Some(TypeKind::Scalar) && !BUILTIN_SCALARS.contains(&n.as_str());
                if v.is_array() && !custom {
                    return Err(("C33|shape|list-nesting".into(), format!("list {} at {} where type {} is not a list", v, path_string(path), n)));
                }
                match kind {
                    Some(TypeKind::Object | TypeKind::Interface | TypeKind::Union) => {
                        let Json::Object(o) = v else {
                            return Err(("C33|shape|object-expected".into(), format!("{} at {} of type {}", v, path_string(path), n)));
                        };
                        let sets: Vec<&'a [Selection]> = fields.iter().map(|f| &f.selection_set[..]).collect();
                        self.object(o, n, &sets, path)
                    }
                    Some(TypeKind::Enum) => match v {
                        Json::String(s) if self.schema.enum_has(n, s) => Ok(Shaped::Leaf(v.clone())),
                        _ => Err(("C33|shape|enum-value".into(), format!("{} at {} is not a value of enum {}", v, path_string(path), n))),
                    },
                    Some(TypeKind::Scalar) => {
                        let ok = match n.as_str() {
                            "Int" => v.as_i64().map(|i| !v.is_f64() && i32::try_from(i).is_ok()).unwrap_or(false),
                            "Float" => v.is_number(),
                            "String" => v.is_string(),
                            "Boolean" => v.is_boolean(),
                            "ID" => v.is_string() || (v.is_i64() || v.is_u64()),
                            _ => true,
                        };
                        if ok {
                            Ok(Shaped::Leaf(v.clone()))
                        } else {
                            Err((format!("C33|shape|scalar-kind|{}", n), format!("{} at {} of type {}", v, path_string(path), n)))
                        }
                    }
                    _ => {
                        self.unspecified = true;
                        Ok(Shaped::Leaf(v.clone()))
                    }
                }
            }
        }
    }
}

/// Serve `shaped` as a resolver world.
fn world_of(shaped: &Shaped, path: &mut Path, w: &mut World) {
    fn outcome(s: &Shaped) -> rx::Outcome {
        match s {
            Shaped::Null => rx::Outcome::Leaf(Json::Null),
            Shaped::Leaf(j) => rx::Outcome::Leaf(j.clone()),
            Shaped::List(l) => rx::Outcome::List(l.iter().map(outcome).collect()),
            Shaped::Object(t, _) => rx::Outcome::Object(t.clone()),
        }
    }
    match shaped {
        Shaped::Object(t, fields) => {
            for (k, name, v) in fields {
                path.push(Seg::Key(k.clone()));
                if name != "__typename" {
                    w.table.insert(path_string(path), Entry { object_type: t.clone(), field: name.clone(), outcome: outcome(v) });
                }
                world_of(v, path, w);
                path.pop();
            }
        }
        Shaped::List(l) => {
            for (i, x) in l.iter().enumerate() {
                path.push(Seg::Index(i));
                world_of(x, path, w);
                path.pop();
            }
        }
        _ => {}
    }
}

fn list_lengths(v: &Json, out: &mut Vec<usize>) {
    match v {
        Json::Array(a) => {
            out.push(a.len());
            a.iter().for_each(|x| list_lengths(x, out));
        }
        Json::Object(o) => o.values().for_each(|x| list_lengths(x, out)),
        _ => {}
    }
}

// ------------------------------------------------------------------------------------------------

/// Upper bound on the number of values a response to `sels` can hold when every list has
/// `max_len` items (fragments expanded, type conditions ignored, merged fields counted twice).
fn worst_size(s: &RefSchema, doc: &Document, sels: &[Selection], parent: &str, max_len: usize, guard: usize) -> f64 {
    if guard > 24 {
        return 1.0;
    }
    let mut total = 0.0;
    for sel in sels {
        total += match sel {
            Selection::Field(f) => match s.field(parent, &f.name) {
                Some(def) => {
                    let mult = (max_len.max(1) as f64).powi(def.ty.depth() as i32);
                    mult * (1.0 + worst_size(s, doc, &f.selection_set, def.ty.inner_name(), max_len, guard + 1))
                }
                None => 1.0,
            },
            Selection::Inline(i) => worst_size(s, doc, &i.selection_set, i.type_condition.as_deref().unwrap_or(parent), max_len, guard + 1),
            Selection::Spread(sp) => doc
                .defs
                .iter()
                .find_map(|d| match d {
                    Definition::Fragment(fr) if fr.name == sp.name => Some(worst_size(s, doc, &fr.selection_set, &fr.type_condition, max_len, guard + 1)),
                    _ => None,
                })
                .unwrap_or(0.0),
        };
    }
    total
}

/// ResponseBuilder has no size limit: keep the worst-case response small by lowering the list
/// bounds of the configuration for operations that nest many lists.
fn bound_lists(case: &Case, cfg: &mut Config) {
    let op = case.operation();
    let root = case.schema.root(op.op).unwrap_or("Query").to_string();
    while cfg.max_len > 1 && worst_size(&case.schema, &case.op_doc, &op.selection_set, &root, cfg.max_len, 0) > 20_000.0 {
        cfg.max_len -= 1;
        cfg.min_len = cfg.min_len.min(cfg.max_len);
    }
}

pub fn check(bytes: &[u8], ctx: &mut Ctx) -> Outcome {
    let (cb, rb) = exec_ops::split_world_bytes(bytes);
    let case = exec_ops::case(&cb, &opts(ctx.tier));
    let mut c = Choices::new(&rb);
    let mut cfg = config(&mut c);
    bound_lists(&case, &mut cfg);
    evaluate(&case, &cfg, ctx)
}

/// `<config line>\n#---\n<operation>\n#---\n<variables JSON>\n#---\n<schema SDL>` where the config line
/// is `source=unstructured:<hex>|rand:<seed> null_ratio=none|<n>/<d> list=<min>..=<max>`.
pub fn check_text(text: &str, ctx: &mut Ctx) -> Outcome {
    let parts: Vec<&str> = text.splitn(4, exec_ops::SEP).collect();
    if parts.len() != 4 {
        return Outcome::fail("C33|bad-repro", "expected <config>#---<operation>#---<variables>#---<schema>");
    }
    let mut cfg = Config { source: 1, seed: 0, bytes: vec![], null_ratio: None, min_len: 0, max_len: 5 };
    for tok in parts[0].split_whitespace() {
        if let Some(x) = tok.strip_prefix("source=unstructured:") {
            cfg.source = 0;
            cfg.bytes = crate::choices::unhex(x);
        } else if let Some(x) = tok.strip_prefix("source=rand:") {
            cfg.source = 1;
            cfg.seed = x.parse().unwrap_or(0);
        } else if let Some(x) = tok.strip_prefix("null_ratio=") {
            cfg.null_ratio = x.split_once('/').and_then(|(n, d)| Some((n.parse().ok()?, d.parse().ok()?)));
        } else if let Some(x) = tok.strip_prefix("list=") {
            if let Some((a, b)) = x.split_once("..=") {
                cfg.min_len = a.parse().unwrap_or(0);
                cfg.max_len = b.parse().unwrap_or(5);
            }
        }
    }
    let Ok(schema_doc) = parse_document(parts[3]) else { return Outcome::fail("C33|bad-repro", "schema does not parse") };
    let Ok(op_doc) = parse_document(parts[1]) else { return Outcome::fail("C33|bad-repro", "operation does not parse") };
    let Ok(Json::Object(variables)) = serde_json::from_str::<Json>(parts[2]) else { return Outcome::fail("C33|bad-repro", "variables are not a JSON object") };
    let schema = RefSchema::from_document(&schema_doc);
    let var_defs = op_doc.defs.iter().find_map(|d| if let Definition::Operation(o) = d { Some(o.vars.clone()) } else { None }).unwrap_or_default();
    let case = Case { sdl: parts[3].to_string(), op_text: parts[1].to_string(), schema_doc, schema, op_doc, var_defs, variables, features: vec![] };
    evaluate(&case, &cfg, ctx)
}

fn configure<'a, 'd, 's, R: apollo_smith::RandomProvider>(b: ResponseBuilder<'a, 'd, 's, R>, cfg: &Config) -> ResponseBuilder<'a, 'd, 's, R> {
    let b = b.with_min_list_size(cfg.min_len).with_max_list_size(cfg.max_len);
    match cfg.null_ratio {
        Some((n, d)) => b.with_null_ratio(n, d),
        None => b,
    }
}

fn evaluate(case: &Case, cfg: &Config, ctx: &mut Ctx) -> Outcome {
    ctx.set_sample(format!("{}{}{}", cfg.render(), exec_ops::SEP, case.render()));
    for f in &case.features {
        ctx.class(format!("op:{}", f));
    }
    ctx.class(format!("cfg:source={}", if cfg.source == 0 { "unstructured" } else { "rand" }));
    ctx.class(format!("cfg:null_ratio={:?}", cfg.null_ratio));
    ctx.nontrivial = case.features.iter().any(|f| f.starts_with("select:nested-list") || *f == "select:abstract");

    let a_schema = match apollo_compiler::Schema::parse_and_validate(&case.sdl, "schema.graphql") {
        Ok(s) => s,
        Err(e) => {
            if ctx.strict {
                eprintln!("apollo rejects the schema:\n{}", e.errors);
            }
            return ctx.skip("apollo-validation-rejects-schema");
        }
    };
    let a_doc = match apollo_compiler::ExecutableDocument::parse_and_validate(&a_schema, &case.op_text, "op.graphql") {
        Ok(d) => d,
        Err(e) => {
            if ctx.strict {
                eprintln!("apollo rejects the operation:\n{}", e.errors);
            }
            return ctx.skip("apollo-validation-rejects-operation");
        }
    };

    // apollo-smith
    let built = catch(|| {
        if cfg.source == 0 {
            let mut u = Unstructured::new(&cfg.bytes);
            configure(ResponseBuilder::new(&mut u, &a_doc, &a_schema), cfg).build().map_err(|e| e.to_string())
        } else {
            use rand::SeedableRng;
            let mut r = RandProvider(rand::rngs::StdRng::seed_from_u64(cfg.seed));
            configure(ResponseBuilder::new(&mut r, &a_doc, &a_schema), cfg).build().map_err(|e| e.to_string())
        }
    });
    let response = match built {
        Err((msg, loc)) => return Outcome::fail(format!("C33|panic|build|{}", normalise_panic(&msg, &loc)), format!("panic: {} at {}", msg, loc)),
        Ok(Err(e)) => {
            ctx.class("build-error");
            if ctx.strict {
                eprintln!("ResponseBuilder error: {}", e);
            }
            return Outcome::Pass;
        }
        Ok(Ok(v)) => from_apollo(&v),
    };
    if ctx.strict {
        eprintln!("generated: {}", response);
    }
    let Some(Json::Object(data)) = response.get("data").cloned() else {
        return Outcome::fail("C33|shape|data-not-an-object", format!("response {}", response));
    };
    let mut lens = vec![];
    list_lengths(&Json::Object(data.clone()), &mut lens);
    if !lens.is_empty() {
        ctx.class(if lens.iter().all(|l| *l >= cfg.min_len && *l <= cfg.max_len) { "lists:within-bounds" } else { "lists:outside-bounds" });
    }

    // shape
    let coerced = match Coercer::new(&case.schema).coerce_variable_values(&case.var_defs, &case.variables) {
        Ok(v) => v,
        Err(Fail::Unspecified(_)) | Err(Fail::Err(_)) => return ctx.skip("variables-not-accepted-by-reference"),
    };
    let op = case.operation();
    let Some(root) = case.schema.root(op.op).map(|s| s.to_string()) else { return ctx.skip("no-root") };
    let mut ck = Checker { schema: &case.schema, doc: &case.op_doc, variables: &coerced, unspecified: false };
    let sets: Vec<&[Selection]> = vec![&op.selection_set[..]];
    let shaped = ck.object(&data, &root, &sets, &mut vec![]);
    if ck.unspecified {
        return ctx.skip("reference-unspecified");
    }
    let shaped = match shaped {
        Ok(s) => s,
        Err((sig, detail)) => return Outcome::fail(sig, format!("{}; generated data {}", detail, Json::Object(data))),
    };
    ctx.class("shape:ok");

    // execution over the served data
    let mut world = World::default();
    world_of(&shaped, &mut vec![], &mut world);
    let mut t = TableResolvers { world: &world, missing: vec![] };
    let reference = rx::execute(&case.schema, &case.op_doc, op, &coerced, &mut t, false);
    if !reference.unspecified.is_empty() {
        return ctx.skip("reference-unspecified");
    }
    if !reference.errors.is_empty() {
        // only argument coercion can fail here (the served data is well-typed by the shape check)
        if reference.errors.iter().all(|e| e.kind == "argument-coercion") || !t.missing.is_empty() {
            ctx.class("exec:skipped-argument-errors");
            return Outcome::Pass;
        }
        return Outcome::fail(
            "C33|exec|reference-errors",
            format!("the shape check passed but the reference executor over the served data raises {:?}; data {}", reference.errors.iter().map(|e| (path_string(&e.path), e.kind)).collect::<Vec<_>>(), Json::Object(data)),
        );
    }
    let variables: AJsonMap = case.variables.iter().map(|(k, v)| (k.as_str().into(), exec::to_apollo(v))).collect();
    let obs = match catch(|| exec::execute_sync(&a_schema, &a_doc, &variables, &world, &root)) {
        Ok(Ok(o)) => o,
        Ok(Err(_)) => return ctx.skip("request-error"),
        Err((msg, loc)) => return Outcome::fail(format!("C33|panic|execute_sync|{}", normalise_panic(&msg, &loc)), format!("panic: {} at {}", msg, loc)),
    };
    let want = Json::Object(data);
    if !obs.error_paths.is_empty() {
        return Outcome::fail(
            "C33|exec|errors",
            format!("executing over the generated data raises errors at {:?} {:?}; generated {} executed {}", obs.error_paths.iter().map(|p| path_string(p)).collect::<Vec<_>>(), obs.error_messages, want, obs.data),
        );
    }
    if !obs.problems.is_empty() {
        return Outcome::fail("C33|exec|resolver-calls", format!("{:?}; generated {}", obs.problems, want));
    }
    if obs.data != want {
        return Outcome::fail("C33|exec|data", format!("generated {} executed {}", want, obs.data));
    }
    ctx.class("exec:reproduced");
    Outcome::Pass
}

#[cfg(test)]
mod tests {
    use super::*;

    /// Development aid: `cargo test --release c33::tests::explore -- --ignored --nocapture`
    #[test]
    #[ignore]
    fn explore() {
        let n: u64 = std::env::var("N").ok().and_then(|s| s.parse().ok()).unwrap_or(3000);
        let mut fails: std::collections::BTreeMap<String, (u64, String)> = Default::default();
        let mut classes: std::collections::BTreeMap<String, u64> = Default::default();
        let mut skips: std::collections::BTreeMap<String, u64> = Default::default();
        let t0 = std::time::Instant::now();
        for i in 0..n {
            let bytes = crate::runner::gen_case(20260921, "C33", 0, i, 900);
            let mut ctx = Ctx::new(Tier::Quick, false);
            let r = check(&bytes, &mut ctx);
            for c in &ctx.classes {
                if !c.starts_with("op:") {
                    *classes.entry(c.clone()).or_insert(0) += 1;
                }
            }
            if let Some(w) = ctx.skipped {
                *skips.entry(w.to_string()).or_insert(0) += 1;
            }
            if let Outcome::Fail { sig, detail } = r {
                let e = fails.entry(sig).or_insert((0, String::new()));
                e.0 += 1;
                if e.1.is_empty() || e.1.len() > detail.len() + ctx.sample.as_ref().map(|s| s.len()).unwrap_or(0) + 10 {
                    e.1 = format!("#{} {}\n{}", i, detail, ctx.sample.unwrap_or_default());
                }
            }
        }
        println!("elapsed {:?} for {} cases", t0.elapsed(), n);
        println!("skips {:?}\n{:#?}", skips, classes);
        for (k, (n, d)) in &fails {
            println!("FAIL {} x{}\n{}\n", k, n, crate::runner::truncate(d, 2500));
        }
    }
}
