//! C31 File ids are unique and shared state is thread-safe.
//!
//! (a) `FileId::new` under a controlled scheduler (shuttle): the cfg-guarded hook in
//!     `apollo_compiler::parser::verif_hooks` calls a harness-installed function in front of every atomic
//!     operation on the id counter; the harness installs a shuttle schedule point there, so shuttle owns
//!     the interleaving of concurrent allocations while the code under test is the real `FileId::new`.
//!     Three drivers share one test body: shuttle's random and PCT schedulers (custom stage, child
//!     processes, failing schedules saved as shuttle schedule strings) and a scheduler driven by the
//!     harness's choice stream (random stage `schedules`, shrinkable).
//! (b) tag/id packing: `verif_hooks::pack_unpack` over boundary and random 63-bit ids, and end to end
//!     through a parse with the counter preset to a random 63-bit value.
//! (c) real threads: 16 threads hammering `FileId::new`, and parse / validate / introspection workloads
//!     against one shared `Valid<Schema>` compared with a sequential run in another process.
use crate::choices::{fnv, hex, unhex, Choices};
use crate::props::c22::{diag_parts, introspect, INTROSPECTION_QUERY};
use crate::runner::{gen_case, truncate, verif_root, Ctx, CustomReport, Failure, Outcome, Prop, RunCfg, Tier};
use apollo_compiler::parser::{verif_hooks, FileId};
use apollo_compiler::validation::Valid;
use apollo_compiler::{ast, ExecutableDocument, Name, Schema};
use serde_json::{json, Value};
use shuttle::scheduler::{PctScheduler, RandomScheduler, ReplayScheduler, Schedule, Scheduler, Task, TaskId};
use std::collections::{BTreeMap, BTreeSet};
use std::panic::{catch_unwind, AssertUnwindSafe};
use std::process::{Command, Stdio};
use std::sync::{Arc, Barrier, Mutex};

const TAG: u64 = 1 << 63;

pub fn prop() -> Prop {
    Prop::new(
        "C31",
        "File ids are unique and shared state is thread-safe",
        "Cases: (a) schedules of 2-4 threads making 1-4 FileId::new calls each with the counter preset to one of \
         {3, 1000, 2^32-1, 2^63-5 .. 2^63-1}, a schedule point in front of every atomic operation on the counter: \
         stage `schedules` drives the schedule from the choice stream, the custom stage uses shuttle's random and \
         PCT schedulers (seeds derived from the run seed) in child processes; (b) stage `pack`: boundary and random \
         63-bit ids x tag through TaggedFileId::pack/tag/file_id; stage `pack-parse`: counter preset to a random \
         63-bit value, a generated document parsed, every name and node location read back; (c) custom stage: 16 \
         real threads allocating >= 10^6 ids, and parse / validate / introspection items against ONE shared \
         Valid<Schema>, all threads first touching the lazily initialised statics at a barrier, outputs compared \
         with a sequential run in a different process. Oracle: ids pairwise distinct unless the run needs more ids \
         than remain below 2^63 (then only the ids allocated before the wrap must be distinct), never 0, 1, 2, \
         never with bit 63; packing is the identity; concurrent outputs equal sequential ones. Non-trivial \
         (schedules): at least one thread is preempted between two of its allocations; distinct by \
         (configuration, allocation order).",
    )
    .random("schedules", check_schedule, |t| if t == Tier::Quick { 8_000 } else { 120_000 }, |_| 8 + SEGMENT * EXECUTIONS)
    .random("pack", check_pack, |t| if t == Tier::Quick { 200_000 } else { 3_000_000 }, |_| 16)
    .random("pack-parse", check_pack_parse, |t| if t == Tier::Quick { 30_000 } else { 600_000 }, |_| 400)
    // zero-case stage: replays a shuttle schedule string found by the custom stage
    .random("shuttle-replay", check_shuttle_replay, |_| 0, |_| 4096)
    .custom(custom)
    .assumptions(&[
        "the counter is preset only to values in 3 ..= 2^63-1 (the values FileId::new itself can leave behind)",
        "after the counter wrapped, ids may repeat (the property only promises distinctness until the wrap); they must still be valid",
        "shuttle explorations run one at a time per process (the counter and the hook are process-global); the hook is removed afterwards",
        "real-thread stages explore whatever the OS schedules; a wall-clock limit only ever yields `inconclusive`",
        "outputs compared across threads/processes are file-id independent (serializations, Display of diagnostics, JSON)",
    ])
}

// ------------------------------------------------------------------------------------------------
// (a) id allocation under a controlled scheduler

#[derive(Clone, Debug, PartialEq, Eq)]
pub struct IdCase {
    pub calls: Vec<usize>,
    pub start: u64,
    /// 0: schedule point = shuttle::thread::yield_now, 1: plain context switch (shuttle::thread::sleep)
    pub point: u8,
}

const STARTS: [u64; 9] = [3, 1000, 0xFFFF_FFFF, (1 << 63) - 5, (1 << 63) - 4, (1 << 63) - 3, (1 << 63) - 2, (1 << 63) - 1, 0x1_0000_0000];

impl IdCase {
    pub fn decode(c: &mut Choices) -> IdCase {
        let threads = 2 + c.choose(3);
        let calls = (0..threads).map(|_| 1 + c.choose(4)).collect();
        // favour the starts next to the wrap
        let start = STARTS[c.weighted(&[10, 6, 6, 12, 12, 12, 12, 12, 4])];
        let point = c.choose(2) as u8;
        IdCase { calls, start, point }
    }
    fn total(&self) -> u64 {
        self.calls.iter().sum::<usize>() as u64
    }
    fn render(&self) -> String {
        format!("threads x calls = {:?}, counter preset to {} (2^63 - {}), schedule point = {}", self.calls, self.start, TAG - self.start, if self.point == 0 { "yield_now" } else { "switch" })
    }
    fn to_bytes(&self, schedule: &str) -> Vec<u8> {
        let mut b = vec![self.calls.len() as u8];
        for i in 0..4 {
            b.push(*self.calls.get(i).unwrap_or(&0) as u8);
        }
        b.extend_from_slice(&self.start.to_be_bytes());
        b.push(self.point);
        b.extend_from_slice(schedule.as_bytes());
        b
    }
    fn from_bytes(b: &[u8]) -> Option<(IdCase, String)> {
        if b.len() < 14 {
            return None;
        }
        let n = (b[0] as usize).clamp(1, 4);
        let calls = (0..n).map(|i| (b[1 + i] as usize).clamp(1, 4)).collect();
        let start = u64::from_be_bytes(b[5..13].try_into().ok()?);
        if !(3..TAG).contains(&start) {
            return None;
        }
        Some((IdCase { calls, start, point: b[13] & 1 }, String::from_utf8_lossy(&b[14..]).to_string()))
    }
}

fn point_yield() {
    shuttle::thread::yield_now();
}
fn point_switch() {
    shuttle::thread::sleep(std::time::Duration::from_millis(0));
}

/// Removes the hook when dropped (also on unwind).
struct HookGuard;
impl HookGuard {
    fn install(point: u8) -> HookGuard {
        verif_hooks::set_schedule_point(Some(if point == 0 { point_yield } else { point_switch }));
        HookGuard
    }
}
impl Drop for HookGuard {
    fn drop(&mut self) {
        verif_hooks::set_schedule_point(None);
        verif_hooks::preset_next_file_id(1_000_000);
    }
}

/// What one execution observed: (thread, id) in allocation order.
type IdLog = Vec<(usize, u64)>;

#[derive(Default)]
pub struct Acc {
    pub evals: u64,
    pub keys: BTreeSet<u64>,
    pub classes: BTreeMap<String, u64>,
    pub sample: Option<String>,
    pub fail: Option<(String, String, String)>,
}

/// The oracle of part (a). Ok(number of preemptions between two allocations of one thread).
pub fn id_oracle(case: &IdCase, log: &IdLog) -> Result<usize, (String, String)> {
    let total = case.total();
    if log.len() as u64 != total {
        return Err(("C31|ids|lost-allocation".into(), format!("{} allocations were made but {} ids were recorded", total, log.len())));
    }
    for &(t, id) in log {
        if id & TAG != 0 {
            return Err(("C31|ids|tag-bit-set".into(), format!("thread {} got id {:#x} with bit 63 set", t, id)));
        }
        if id <= 2 {
            return Err(("C31|ids|reserved".into(), format!("thread {} got the reserved id {}", t, id)));
        }
    }
    let capacity = TAG - case.start; // ids available before the counter reaches 2^63
    let wraps = total > capacity;
    let mut seen: BTreeMap<u64, usize> = BTreeMap::new();
    for &(t, id) in log {
        // once the run needs the wrap, only ids handed out before it (>= start) must be distinct
        if wraps && id < case.start {
            continue;
        }
        if let Some(prev) = seen.insert(id, t) {
            return Err((
                if wraps { "C31|ids|duplicate-before-wrap".into() } else { "C31|ids|duplicate".into() },
                format!("id {} was handed out twice (threads {} and {}); allocation order (thread, id): {:?}", id, prev, t, log),
            ));
        }
    }
    let mut pre = 0;
    for i in 0..log.len().saturating_sub(1) {
        if log[i].0 != log[i + 1].0 && log[i + 2..].iter().any(|x| x.0 == log[i].0) {
            pre += 1;
        }
    }
    Ok(pre)
}

static LAST_FAIL: Mutex<Option<(String, String)>> = Mutex::new(None);

/// The shuttle test body: must run inside a shuttle execution with the hook installed.
fn id_body(case: &IdCase, acc: &Mutex<Acc>) {
    verif_hooks::preset_next_file_id(case.start);
    let log: Arc<Mutex<IdLog>> = Arc::new(Mutex::new(Vec::new()));
    let handles: Vec<_> = case
        .calls
        .iter()
        .enumerate()
        .map(|(t, &n)| {
            let log = log.clone();
            shuttle::thread::spawn(move || {
                for _ in 0..n {
                    let id = FileId::new();
                    log.lock().unwrap().push((t, verif_hooks::file_id_value(id)));
                }
            })
        })
        .collect();
    for h in handles {
        let _ = h.join();
    }
    let log = log.lock().unwrap().clone();
    match id_oracle(case, &log) {
        Ok(pre) => {
            let mut a = acc.lock().unwrap();
            a.evals += 1;
            let wraps = case.total() > TAG - case.start;
            *a.classes.entry(format!("threads-{}", case.calls.len())).or_insert(0) += 1;
            *a.classes.entry(if wraps { "crosses-wrap" } else { "below-wrap" }.to_string()).or_insert(0) += 1;
            *a.classes.entry(format!("preemptions-{}", if pre >= 3 { "3+".to_string() } else { pre.to_string() })).or_insert(0) += 1;
            if pre >= 1 {
                let order: Vec<u8> = log.iter().map(|x| x.0 as u8).collect();
                a.keys.insert(fnv(format!("{:?}|{}|{:?}", case.calls, case.start, order).as_bytes()));
                if a.sample.is_none() {
                    a.sample = Some(format!("{}; allocation order (thread, id): {:?}", case.render(), log));
                }
            }
        }
        Err((sig, detail)) => {
            *LAST_FAIL.lock().unwrap() = Some((sig.clone(), format!("{}\n{}", case.render(), detail)));
            panic!("C31 oracle failed: {}", sig);
        }
    }
}

fn shuttle_config(persist: Option<&str>) -> shuttle::Config {
    let mut cfg = shuttle::Config::new();
    cfg.stack_size = 0x20000;
    cfg.failure_persistence = match persist {
        Some(dir) => shuttle::FailurePersistence::File(Some(std::path::PathBuf::from(dir))),
        None => shuttle::FailurePersistence::None,
    };
    cfg.silence_warnings = true;
    cfg
}

/// Run `scheduler` over the body; Err((sig, detail)) if the oracle failed in some execution.
fn run_shuttle<S: Scheduler + 'static>(case: &IdCase, scheduler: S, acc: Arc<Mutex<Acc>>, persist: Option<&str>) -> Result<(), (String, String)> {
    *LAST_FAIL.lock().unwrap() = None;
    let _guard = HookGuard::install(case.point);
    let case2 = case.clone();
    let cfg = shuttle_config(persist);
    let r = catch_unwind(AssertUnwindSafe(move || {
        let runner = shuttle::Runner::new(scheduler, cfg);
        runner.run(move || id_body(&case2, &acc));
    }));
    let failed = LAST_FAIL.lock().unwrap().take();
    match (r, failed) {
        (_, Some(f)) => Err(f),
        (Ok(()), None) => Ok(()),
        (Err(p), None) => {
            let msg = p.downcast_ref::<&str>().map(|s| s.to_string()).or_else(|| p.downcast_ref::<String>().cloned()).unwrap_or_else(|| "<non-string panic>".into());
            Err(("C31|panic|FileId::new-under-shuttle".into(), format!("{}\npanic: {}", case.render(), msg)))
        }
    }
}

/// A scheduler driven by the harness's choice stream: byte 0 keeps the current task running (no
/// preemption), any other byte picks among the runnable tasks.
struct ChoiceScheduler {
    bytes: Vec<u8>,
    pos: usize,
    /// executions started so far; execution k reads the bytes from k * SEGMENT on
    started: usize,
    executions: usize,
}

/// Bytes of the choice vector per execution (one case = EXECUTIONS schedules of the same configuration,
/// so that shuttle's continuation stacks are allocated once per case).
const SEGMENT: usize = 24;
const EXECUTIONS: usize = 8;

impl Scheduler for ChoiceScheduler {
    fn new_execution(&mut self) -> Option<Schedule> {
        if self.started >= self.executions {
            None
        } else {
            self.pos = self.started * SEGMENT;
            self.started += 1;
            Some(Schedule::new(0))
        }
    }
    fn next_task(&mut self, runnable: &[&Task], current: Option<TaskId>, _is_yielding: bool) -> Option<TaskId> {
        let b = self.bytes.get(self.pos).copied().unwrap_or(0);
        self.pos += 1;
        if b == 0 {
            if let Some(c) = current {
                if runnable.iter().any(|t| t.id() == c) {
                    return Some(c);
                }
            }
            return Some(runnable[0].id());
        }
        Some(runnable[(b as usize * runnable.len()) >> 8].id())
    }
    fn next_u64(&mut self) -> u64 {
        0
    }
}

pub fn check_schedule(bytes: &[u8], ctx: &mut Ctx) -> Outcome {
    let mut c = Choices::new(bytes);
    let case = IdCase::decode(&mut c);
    let sched = c.rest().to_vec();
    let acc = Arc::new(Mutex::new(Acc::default()));
    // an execution whose segment is empty (all zeros = no preemption) adds nothing after the first
    let executions = sched.len().div_ceil(SEGMENT).clamp(1, EXECUTIONS);
    let r = run_shuttle(&case, ChoiceScheduler { bytes: sched.clone(), pos: 0, started: 0, executions }, acc.clone(), None);
    let a = acc.lock().unwrap();
    ctx.set_sample(a.sample.clone().unwrap_or_else(|| format!("{}; schedule bytes {}", case.render(), hex(&sched))));
    for (k, _) in a.classes.iter() {
        ctx.class(k.clone());
    }
    ctx.nontrivial = !a.keys.is_empty();
    ctx.key = a.keys.iter().next().copied();
    ctx.sub_evals += a.evals;
    match r {
        Ok(()) => Outcome::Pass,
        Err((sig, detail)) => Outcome::fail(sig, detail),
    }
}

pub fn check_shuttle_replay(bytes: &[u8], ctx: &mut Ctx) -> Outcome {
    let Some((case, schedule)) = IdCase::from_bytes(bytes) else {
        return ctx.skip("not a shuttle replay record");
    };
    ctx.set_sample(format!("{}\nshuttle schedule: {}", case.render(), schedule));
    let sched = match catch_unwind(|| ReplayScheduler::new_from_encoded(&schedule)) {
        Ok(mut s) => {
            s.set_allow_incomplete();
            s
        }
        Err(_) => return ctx.skip("schedule string does not decode"),
    };
    let acc = Arc::new(Mutex::new(Acc::default()));
    match run_shuttle(&case, sched, acc.clone(), None) {
        Ok(()) => {
            ctx.nontrivial = !acc.lock().unwrap().keys.is_empty();
            Outcome::Pass
        }
        Err((sig, detail)) => Outcome::fail(sig, format!("{}\nshuttle schedule (shuttle::replay): {}", detail, schedule)),
    }
}

// ------------------------------------------------------------------------------------------------
// (b) packing

pub fn check_pack(bytes: &[u8], ctx: &mut Ctx) -> Outcome {
    let mut c = Choices::new(bytes);
    let id: u64 = match c.weighted(&[30, 30, 40]) {
        0 => {
            let k = c.choose(64);
            // 2^k, 2^k - 1, 2^k + 1 (masked to 63 bits)
            let p = 1u64 << k.min(62);
            match c.choose(3) {
                0 => p,
                1 => p.wrapping_sub(1).max(1),
                _ => p + 1,
            }
        }
        1 => [1u64, 2, 3, 0xFFFF_FFFF, 0x1_0000_0000, TAG - 1, TAG - 2, 0x5555_5555_5555_5555, 0x2AAA_AAAA_AAAA_AAAA, 0x7FFF_FFFF_0000_0000, 0x0000_0000_8000_0000][c.choose(11)],
        _ => (c.u64() & !TAG).max(1),
    };
    let tag = c.coin();
    ctx.set_sample(format!("pack(tag = {}, id = {:#x})", tag, id));
    ctx.class(if tag { "tag-set" } else { "tag-clear" });
    ctx.nontrivial = id > 0xFFFF_FFFF;
    match verif_hooks::pack_unpack(tag, id) {
        Some((t, i)) if t == tag && i == id => Outcome::Pass,
        other => Outcome::fail(
            if other.map(|x| x.0 != tag).unwrap_or(false) { "C31|pack|tag-changed" } else { "C31|pack|id-changed" },
            format!("pack(tag = {}, id = {:#x}) unpacks to {:?}", tag, id, other),
        ),
    }
}

struct Walk<'a> {
    src: &'a str,
    want: u64,
    names: usize,
    nodes: usize,
    err: Option<(String, String)>,
}

impl Walk<'_> {
    fn fail(&mut self, sig: &str, detail: String) {
        if self.err.is_none() {
            self.err = Some((sig.to_string(), detail));
        }
    }
    fn name(&mut self, n: &Name, plain_token: bool) {
        let Some(loc) = n.location() else {
            return self.fail("C31|parse|name-without-location", format!("parsed name {:?} has no location", n.as_str()));
        };
        self.names += 1;
        let got = verif_hooks::file_id_value(loc.file_id());
        if got != self.want {
            return self.fail("C31|parse|file-id", format!("name {:?}: file id {:#x}, the file was parsed under id {:#x}", n.as_str(), got, self.want));
        }
        if n.to_cloned_arc().is_none() || n.as_static_str().is_some() {
            return self.fail("C31|parse|tag", format!("parsed name {:?} (file id {:#x}) does not read back as a heap name", n.as_str(), self.want));
        }
        if loc.end_offset() - loc.offset() != n.len() || loc.end_offset() > self.src.len() {
            return self.fail("C31|parse|name-span", format!("name {:?}: span {}..{} in a {}-byte file", n.as_str(), loc.offset(), loc.end_offset(), self.src.len()));
        }
        if plain_token && self.src.get(loc.offset()..loc.end_offset()) != Some(n.as_str()) {
            return self.fail("C31|parse|name-text", format!("name reads {:?} but the source has {:?} at its location", n.as_str(), self.src.get(loc.offset()..loc.end_offset())));
        }
    }
    fn node_loc(&mut self, what: &str, loc: Option<apollo_compiler::parser::SourceSpan>) {
        let Some(loc) = loc else {
            return self.fail("C31|parse|node-without-location", format!("parsed {} has no location", what));
        };
        self.nodes += 1;
        let got = verif_hooks::file_id_value(loc.file_id());
        if got != self.want {
            return self.fail("C31|parse|file-id", format!("{}: file id {:#x}, the file was parsed under id {:#x}", what, got, self.want));
        }
        if loc.offset() > loc.end_offset() || loc.end_offset() > self.src.len() {
            self.fail("C31|parse|node-span", format!("{}: span {}..{} in a {}-byte file", what, loc.offset(), loc.end_offset(), self.src.len()));
        }
    }
    fn directives(&mut self, ds: &ast::DirectiveList) {
        for d in ds.0.iter() {
            self.node_loc("directive", d.location());
            self.name(&d.name, true);
            for a in &d.arguments {
                self.node_loc("argument", a.location());
                self.name(&a.name, true);
            }
        }
    }
    fn selections(&mut self, sels: &[ast::Selection]) {
        for s in sels {
            match s {
                ast::Selection::Field(f) => {
                    self.node_loc("field", f.location());
                    self.name(&f.name, true);
                    if let Some(a) = &f.alias {
                        self.name(a, true);
                    }
                    for a in &f.arguments {
                        self.node_loc("argument", a.location());
                        self.name(&a.name, true);
                    }
                    self.directives(&f.directives);
                    self.selections(&f.selection_set);
                }
                ast::Selection::FragmentSpread(f) => {
                    self.node_loc("fragment spread", f.location());
                    self.name(&f.fragment_name, true);
                    self.directives(&f.directives);
                }
                ast::Selection::InlineFragment(f) => {
                    self.node_loc("inline fragment", f.location());
                    if let Some(t) = &f.type_condition {
                        self.name(t, true);
                    }
                    self.directives(&f.directives);
                    self.selections(&f.selection_set);
                }
            }
        }
    }
    fn fields(&mut self, fs: &[apollo_compiler::Node<ast::FieldDefinition>]) {
        for f in fs {
            self.node_loc("field definition", f.location());
            self.name(&f.name, true);
            for a in &f.arguments {
                self.node_loc("argument definition", a.location());
                self.name(&a.name, true);
            }
            self.directives(&f.directives);
        }
    }
    fn document(&mut self, doc: &ast::Document) {
        use ast::Definition as D;
        for def in &doc.definitions {
            match def {
                D::OperationDefinition(o) => {
                    self.node_loc("operation", o.location());
                    if let Some(n) = &o.name {
                        self.name(n, true);
                    }
                    for v in &o.variables {
                        self.node_loc("variable definition", v.location());
                        self.name(&v.name, false);
                        self.directives(&v.directives);
                    }
                    self.directives(&o.directives);
                    self.selections(&o.selection_set);
                }
                D::FragmentDefinition(f) => {
                    self.node_loc("fragment", f.location());
                    self.name(&f.name, true);
                    self.name(&f.type_condition, true);
                    self.directives(&f.directives);
                    self.selections(&f.selection_set);
                }
                D::ObjectTypeDefinition(t) => {
                    self.node_loc("object type", t.location());
                    self.name(&t.name, true);
                    for i in &t.implements_interfaces {
                        self.name(i, true);
                    }
                    self.directives(&t.directives);
                    self.fields(&t.fields);
                }
                D::InterfaceTypeDefinition(t) => {
                    self.node_loc("interface type", t.location());
                    self.name(&t.name, true);
                    self.directives(&t.directives);
                    self.fields(&t.fields);
                }
                D::ObjectTypeExtension(t) => {
                    self.node_loc("object extension", t.location());
                    self.name(&t.name, true);
                    self.fields(&t.fields);
                }
                D::ScalarTypeDefinition(t) => {
                    self.node_loc("scalar type", t.location());
                    self.name(&t.name, true);
                    self.directives(&t.directives);
                }
                D::UnionTypeDefinition(t) => {
                    self.node_loc("union type", t.location());
                    self.name(&t.name, true);
                    for m in &t.members {
                        self.name(m, true);
                    }
                }
                D::EnumTypeDefinition(t) => {
                    self.node_loc("enum type", t.location());
                    self.name(&t.name, true);
                    for v in &t.values {
                        self.node_loc("enum value", v.location());
                        self.name(&v.value, true);
                    }
                }
                D::InputObjectTypeDefinition(t) => {
                    self.node_loc("input object type", t.location());
                    self.name(&t.name, true);
                    for f in &t.fields {
                        self.node_loc("input field", f.location());
                        self.name(&f.name, true);
                    }
                }
                D::DirectiveDefinition(t) => {
                    self.node_loc("directive definition", t.location());
                    self.name(&t.name, true);
                }
                _ => {}
            }
        }
    }
}

pub fn check_pack_parse(bytes: &[u8], ctx: &mut Ctx) -> Outcome {
    let mut c = Choices::new(bytes);
    // a 63-bit id: random, or next to a boundary
    let want: u64 = match c.weighted(&[60, 40]) {
        0 => (c.u64() & !TAG).max(3),
        _ => {
            let k = 2 + c.choose(61);
            let p = 1u64 << k;
            match c.choose(3) {
                0 => p,
                1 => p - 1,
                _ => (p + 1) & !TAG,
            }
            .max(3)
        }
    };
    let d = crate::gen::syntax::document(&mut c, &crate::gen::syntax::Cfg { max_depth: 3, executable: true, type_system: true });
    let src = crate::refmodel::printer::print_document(&d);
    ctx.set_sample(format!("counter preset to {:#x}; document:\n{}", want, src));
    verif_hooks::preset_next_file_id(want);
    let parsed = ast::Document::parse(src.clone(), "c31.graphql");
    let after = verif_hooks::peek_next_file_id();
    verif_hooks::preset_next_file_id(1_000_000);
    let doc = match parsed {
        Ok(d) => d,
        Err(e) => e.partial,
    };
    if after != want + 1 && !(want == TAG - 1 && after == TAG) {
        return Outcome::fail("C31|parse|counter", format!("one parse moved the counter from {:#x} to {:#x}", want, after));
    }
    // the source map is keyed by the same id
    let keys: Vec<u64> = doc.sources.keys().map(|k| verif_hooks::file_id_value(*k)).collect();
    if keys != vec![want] {
        return Outcome::fail("C31|parse|source-map-id", format!("document parsed under id {:#x} has source map keys {:x?}", want, keys));
    }
    let mut w = Walk { src: &src, want, names: 0, nodes: 0, err: None };
    w.document(&doc);
    // a static name given a parsed location keeps its tag clear and the id intact
    if let Some(ast::Definition::OperationDefinition(o)) = doc.definitions.first() {
        if let Some(ast::Selection::Field(f)) = o.selection_set.first() {
            if let Some(loc) = f.name.location() {
                if let Ok(st) = Name::new_static(leak_free_static(f.name.as_str())) {
                    let st = st.with_location(loc);
                    let ok = st.as_static_str().is_some()
                        && st.to_cloned_arc().is_none()
                        && st.location().map(|l| (verif_hooks::file_id_value(l.file_id()), l.offset(), l.end_offset())) == Some((want, loc.offset(), loc.end_offset()));
                    if !ok {
                        w.fail("C31|parse|static-name-with-location", format!("static name {:?} with a location in file {:#x} reads back static = {}, location {:?}", st.as_str(), want, st.as_static_str().is_some(), st.location()));
                    }
                }
            }
        }
    }
    ctx.sub_evals += (w.names + w.nodes) as u64;
    ctx.nontrivial = w.names >= 2 && want > 0xFFFF_FFFF;
    ctx.class(if want > 0xFFFF_FFFF { "id-above-32-bits" } else { "id-32-bits" });
    match w.err {
        Some((sig, detail)) => Outcome::fail(sig, detail),
        None => Outcome::Pass,
    }
}

/// A `&'static str` equal to `s` without leaking: the generator's name table is static.
fn leak_free_static(s: &str) -> &'static str {
    crate::gen::syntax::NAMES.iter().find(|n| **n == s).copied().unwrap_or("a")
}

// ------------------------------------------------------------------------------------------------
// (c) real threads

const SHARED_SDL: &str = r#"
schema { query: Query mutation: Mutation }
"Root"
type Query {
  node(id: ID!): Node
  nodes(first: Int = 10, after: String, filter: Filter): [Node!]!
  search(text: String!, kinds: [Kind!] = [A, B]): [SearchResult]
  me: User @deprecated(reason: "use viewer")
  viewer: User
  scalar: Date
  float: Float
}
type Mutation { rename(id: ID!, name: String!): User setFlag(on: Boolean!): Boolean }
interface Node { id: ID! }
interface Named implements Node { id: ID! name: String }
type User implements Node & Named { id: ID! name: String friends(first: Int): [User!] pet: Pet kind: Kind }
type Pet implements Node { id: ID! owner: User nick: String }
union SearchResult = User | Pet
enum Kind { A B C @deprecated }
input Filter { kind: Kind = A, and: [Filter!], name: String, min: Int = 0 }
scalar Date @specifiedBy(url: "https://example.com/date")
directive @tag(name: String!) repeatable on FIELD | FIELD_DEFINITION | OBJECT
"#;

/// (label, kind, text): kind "sdl" = parse_and_validate as a schema (+ introspection when valid),
/// "query" = parse_and_validate against the shared schema, "introspect" = partial_execute on the shared schema,
/// "execute" = resolvers::Execution::execute_sync against the shared schema with a schema-driven resolver.
fn work_items(seed: u64) -> Vec<(String, &'static str, String)> {
    let mut v: Vec<(String, &'static str, String)> = vec![
        ("shared-sdl".into(), "sdl", SHARED_SDL.into()),
        ("invalid-sdl".into(), "sdl", "type Query { a: Missing b(x: Nope): Int a: Int } interface I { i: Int } type T implements I { j: Int } union U = Int | T enum E { } input In { self: In! } extend type Nope { x: Int } directive @d on NOWHERE".into()),
        ("q-valid-1".into(), "query", "query Q($id: ID!, $n: Int = 3) { node(id: $id) { id ... on User { name friends(first: $n) { id name } } ...P } } fragment P on Pet { nick owner { id } }".into()),
        ("q-valid-2".into(), "query", "{ search(text: \"x\") { __typename ... on Named { name } ... on Pet { nick } } viewer { kind pet { id } } }".into()),
        ("q-valid-3".into(), "query", "mutation M($on: Boolean!) { setFlag(on: $on) rename(id: \"1\", name: \"n\") { id @tag(name: \"a\") @tag(name: \"b\") } }".into()),
        ("q-valid-4".into(), "query", "query($f: Filter = {kind: B, and: [{min: 1}]}) { nodes(filter: $f, first: 2) { id } scalar float }".into()),
        ("q-invalid-1".into(), "query", "query Q($unused1: Int, $unused2: String, $unused3: ID) { nope me { missing id(x: 1) } ...Undefined }".into()),
        ("q-invalid-2".into(), "query", "{ node { id } nodes(first: \"x\", bogus: 1) { id id: name } search(text: 1) { id } } fragment F on Nope { a } fragment G on User { ...G }".into()),
        ("q-invalid-3".into(), "query", "query A { viewer { name } } query A { viewer { id } } { me { id } } subscription S { x }".into()),
        ("q-invalid-4".into(), "query", "query($a: Nope, $a: Int, $b: [Filter!]! = null) { viewer @skip @include(if: $c) @tag { friends(first: $b) { name name: id } } }".into()),
        ("full-introspection".into(), "introspect", INTROSPECTION_QUERY.into()),
        ("introspect-type".into(), "introspect", "{ u: __type(name: \"User\") { name kind fields { name type { kind name ofType { name } } } interfaces { name } } k: __type(name: \"Kind\") { enumValues(includeDeprecated: true) { name isDeprecated } } n: __type(name: \"Node\") { possibleTypes { name } } __typename }".into()),
        ("introspect-directives".into(), "introspect", "{ __schema { directives { name locations isRepeatable args { name defaultValue } } queryType { name } mutationType { name } subscriptionType { name } } }".into()),
    ];
    v.extend([
        ("exec-1".to_string(), "execute", "#vars {\"id\": \"7\", \"n\": 2}\nquery Q($id: ID!, $n: Int = 3) { node(id: $id) { __typename id ... on User { name friends(first: $n) { id name kind } pet { nick owner { id } } } } nodes(first: $n) { id } viewer { friends { id } } }".to_string()),
        ("exec-2".to_string(), "execute", "{ search(text: \"x\", kinds: [B]) { __typename ... on Named { name } ... on Pet { nick } } me { id } scalar float a: viewer { kind } b: viewer { kind name } }".to_string()),
        ("exec-3".to_string(), "execute", "#vars {\"on\": true}\nmutation M($on: Boolean!) { setFlag(on: $on) rename(id: \"1\", name: \"n\") { id name @skip(if: $on) } } query Other { viewer { id } __schema { queryType { name } types { name kind } } t: __type(name: \"Filter\") { inputFields { name defaultValue } } }".to_string()),
        ("exec-4-bad-variables".to_string(), "execute", "#vars {\"f\": {\"kind\": \"Z\", \"min\": \"x\"}}\nquery($f: Filter, $req: Int!) { nodes(filter: $f, first: $req) { id } }".to_string()),
    ]);
    // seed-determined generated schemas (valid by construction) and a mutated one
    for k in 0..4u64 {
        let bytes = gen_case(seed, "C31", 900, k, 500);
        let mut c = Choices::new(&bytes);
        let d = crate::gen::schema::schema(&mut c, &crate::gen::schema::Opts { max_types: 4, ..Default::default() });
        let mut text = crate::refmodel::printer::print_document(&d);
        if k == 3 {
            text = crate::gen::text::mutate_text(&mut c, &text, 3);
        }
        v.push((format!("generated-sdl-{}", k), "sdl", text));
    }
    v
}

// A schema-driven resolver for the `execute` items: every value is a pure function of the field's
// declared type and name, so the response is a pure function of (schema, document, variables).
struct GenObj<'s> {
    ty: &'s str,
    schema: &'s Valid<Schema>,
}

impl apollo_compiler::resolvers::ObjectValue for GenObj<'_> {
    fn type_name(&self) -> &str {
        self.ty
    }
    fn resolve_field<'a>(&'a self, info: &'a apollo_compiler::resolvers::ResolveInfo<'a>) -> Result<apollo_compiler::resolvers::ResolvedValue<'a>, apollo_compiler::resolvers::FieldError> {
        // arguments are read (argument coercion ran against the shared schema)
        let nargs = info.arguments().len();
        if info.field_name() == "me" {
            return Err(apollo_compiler::resolvers::FieldError { message: format!("no `me` here ({} arguments)", nargs) });
        }
        Ok(gen_value(self.schema, &info.field_definition().ty, info.field_name(), nargs))
    }
}

fn gen_value<'a>(schema: &'a Valid<Schema>, ty: &'a apollo_compiler::schema::Type, field: &'a str, nargs: usize) -> apollo_compiler::resolvers::ResolvedValue<'a> {
    use apollo_compiler::resolvers::ResolvedValue as RV;
    use apollo_compiler::schema::{ExtendedType as ET, Type};
    use serde_json_bytes::Value as J;
    match ty {
        Type::List(inner) | Type::NonNullList(inner) => RV::list((0..2 + nargs.min(1)).map(|_| gen_value(schema, inner, field, nargs)).collect::<Vec<_>>()),
        Type::Named(n) | Type::NonNullNamed(n) => match schema.types.get(n) {
            Some(ET::Scalar(_)) => match n.as_str() {
                "Int" => RV::leaf(J::from(7 + nargs as i64)),
                "Float" => RV::leaf(J::from(1.5f64)),
                "Boolean" => RV::leaf(J::from(true)),
                "String" => RV::leaf(J::from(format!("s-{}", field))),
                "ID" => RV::leaf(J::from(format!("id-{}", field))),
                _ => RV::leaf(J::from("2020-01-01".to_string())),
            },
            Some(ET::Enum(e)) => match e.values.keys().next() {
                Some(v) => RV::leaf(J::from(v.as_str().to_string())),
                None => RV::null(),
            },
            Some(ET::Object(_)) => RV::object(GenObj { ty: n.as_str(), schema }),
            Some(ET::Union(u)) => match u.members.iter().next() {
                Some(m) => RV::object(GenObj { ty: m.name.as_str(), schema }),
                None => RV::null(),
            },
            Some(ET::Interface(_)) => {
                // the first object type, in schema order, that declares the interface
                let imp = schema.types.iter().find_map(|(tn, t)| match t {
                    ET::Object(o) if o.implements_interfaces.iter().any(|i| i.name == *n) => Some(tn.as_str()),
                    _ => None,
                });
                match imp {
                    Some(t) => RV::object(GenObj { ty: t, schema }),
                    None => RV::null(),
                }
            }
            _ => RV::null(),
        },
    }
}

/// Execute `text` (optionally `#vars <json>` on its first line) against the shared schema.
fn execute(schema: &Valid<Schema>, text: &str) -> String {
    let (vars, query) = match text.strip_prefix("#vars ") {
        Some(rest) => {
            let (v, q) = rest.split_once('\n').unwrap_or((rest, ""));
            (v.to_string(), q.to_string())
        }
        None => ("{}".to_string(), text.to_string()),
    };
    let vars: serde_json_bytes::Value = serde_json::from_str(&vars).unwrap_or(serde_json_bytes::Value::Null);
    let empty = serde_json_bytes::Map::new();
    let vars = vars.as_object().unwrap_or(&empty);
    match ExecutableDocument::parse_and_validate(schema, &query, "exec.graphql") {
        Err(e) => format!("INVALID DOCUMENT:\n{}", e.errors),
        Ok(doc) => {
            let mut out = String::new();
            // every operation of the document, by name, introspection on and off
            let names: Vec<Option<String>> = if doc.operations.anonymous.is_some() { vec![None] } else { doc.operations.named.keys().map(|k| Some(k.to_string())).collect() };
            for name in names {
                for intro in [false, true] {
                    let root_ty = doc.operations.get(name.as_deref()).ok().and_then(|op| schema.root_operation(op.operation_type)).map(|n| n.to_string()).unwrap_or_else(|| "Query".into());
                    let root = GenObj { ty: &root_ty, schema };
                    let r = match apollo_compiler::resolvers::Execution::new(schema, &doc).operation_name(name.as_deref()) {
                        Ok(ex) => ex.raw_variable_values(vars).enable_schema_introspection(intro).execute_sync(&root),
                        Err(e) => Err(e),
                    };
                    out.push_str(&format!("-- operation {:?} introspection {}\n", name, intro));
                    match r {
                        Ok(resp) => out.push_str(&serde_json::to_string(&resp).unwrap_or_else(|e| format!("<json error {}>", e))),
                        Err(e) => out.push_str(&format!("REQUEST ERROR: {}", e.message())),
                    }
                    out.push('\n');
                }
            }
            out
        }
    }
}

fn run_item(kind: &str, text: &str, shared: Option<&Valid<Schema>>) -> String {
    let mut parts: Vec<(String, String)> = vec![];
    match kind {
        "sdl" => match Schema::parse_and_validate(text, "schema.graphql") {
            Ok(s) => {
                parts.push(("schema".into(), s.to_string()));
                parts.push(("introspection".into(), introspect(&s, INTROSPECTION_QUERY)));
            }
            Err(e) => {
                parts.push(("schema".into(), e.partial.to_string()));
                diag_parts("schema", &e.errors, &mut parts);
            }
        },
        "query" => {
            let s = shared.expect("shared schema");
            match ExecutableDocument::parse_and_validate(s, text, "query.graphql") {
                Ok(d) => parts.push(("exec".into(), d.to_string())),
                Err(e) => {
                    parts.push(("exec".into(), e.partial.to_string()));
                    diag_parts("exec", &e.errors, &mut parts);
                }
            }
        }
        "execute" => {
            let s = shared.expect("shared schema");
            parts.push(("response".into(), execute(s, text)));
        }
        _ => {
            let s = shared.expect("shared schema");
            parts.push(("json".into(), introspect(s, text)));
            parts.push(("shared-schema".into(), s.to_string()));
        }
    }
    let mut out = String::new();
    for (l, t) in parts {
        out.push_str(&format!("== {}\n{}\n", l, t));
    }
    out
}

fn arg(args: &[String], name: &str) -> Option<String> {
    args.iter().position(|a| a == name).and_then(|i| args.get(i + 1)).cloned()
}

/// `--mode workload --threads T --rounds R [--ref FILE]`: T threads; phase A: every thread builds the shared
/// schema from its text at a barrier (first touch of the lazily initialised statics); phase B: every thread
/// runs all items against ONE shared schema. Prints {"outputs": {label: digest}} (T = 1) or compares with
/// the reference digests.
fn aux_workload(args: &[String]) -> i32 {
    let seed: u64 = arg(args, "--seed").and_then(|s| s.parse().ok()).unwrap_or(0);
    let threads: usize = arg(args, "--threads").and_then(|s| s.parse().ok()).unwrap_or(1);
    let rounds: usize = arg(args, "--rounds").and_then(|s| s.parse().ok()).unwrap_or(1);
    let dump = arg(args, "--dump");
    let reference: Option<BTreeMap<String, String>> = arg(args, "--ref").and_then(|p| std::fs::read_to_string(p).ok()).and_then(|s| serde_json::from_str::<Value>(&s).ok()).map(|v| {
        v["outputs"].as_object().map(|o| o.iter().map(|(k, v)| (k.clone(), v.as_str().unwrap_or("").to_string())).collect()).unwrap_or_default()
    });
    let first_mode: usize = arg(args, "--first").and_then(|s| s.parse().ok()).unwrap_or(0);
    let items = Arc::new(work_items(seed));
    let barrier = Arc::new(Barrier::new(threads));
    // phase A: concurrent first touch; every thread returns its own Valid<Schema>
    let handles: Vec<_> = (0..threads)
        .map(|t| {
            let barrier = barrier.clone();
            std::thread::Builder::new()
                .stack_size(16 << 20)
                .spawn(move || {
                    barrier.wait();
                    if first_mode == 2 || (first_mode == 1 && t % 2 == 1) {
                        // a legitimate first use: validation inserts the referenced built-in scalar
                        // definitions that are missing from the type map
                        if let Ok(mut odd) = Schema::parse("type Query { a: Int }", "first.graphql") {
                            odd.types.retain(|n, _| !["Int", "Float", "String", "Boolean", "ID"].contains(&n.as_str()));
                            let _ = odd.validate();
                        }
                    }
                    let s = Schema::parse_and_validate(SHARED_SDL, "schema.graphql").map_err(|e| e.errors.to_string());
                    let first = s.as_ref().ok().map(|s| (s.to_string(), introspect(s, "{ __schema { queryType { name } types { name } } __typename }")));
                    (s, first)
                })
                .expect("spawn")
        })
        .collect();
    let mut schemas = vec![];
    let mut firsts = vec![];
    for h in handles {
        match h.join() {
            Ok((Ok(s), f)) => {
                schemas.push(s);
                firsts.push(f);
            }
            Ok((Err(e), _)) => {
                println!("{}", json!({"fail": {"sig": "C31|threads|shared-schema-invalid", "detail": format!("the shared schema text does not validate in a thread:\n{}", e)}}));
                return 0;
            }
            Err(_) => {
                println!("{}", json!({"fail": {"sig": "C31|threads|panic-first-touch", "detail": "a thread panicked while first touching the schema statics"}}));
                return 0;
            }
        }
    }
    if let Some(bad) = firsts.iter().position(|f| *f != firsts[0]) {
        println!("{}", json!({"fail": {"sig": "C31|threads|first-touch-differs", "detail": format!("threads 0 and {} built different schemas / introspection results from the same text at first touch:\n{:?}\nvs\n{:?}", bad, firsts[0], firsts[bad])}}));
        return 0;
    }
    let shared = Arc::new(schemas.swap_remove(0));
    drop(schemas);
    if let Some(label) = dump {
        for (l, k, t) in items.iter() {
            if *l == label {
                println!("{}", json!({"text": run_item(k, t, Some(&shared))}));
            }
        }
        return 0;
    }
    // phase B
    let reference = Arc::new(reference);
    let barrier = Arc::new(Barrier::new(threads));
    let handles: Vec<_> = (0..threads)
        .map(|t| {
            let (items, shared, barrier, reference) = (items.clone(), shared.clone(), barrier.clone(), reference.clone());
            std::thread::Builder::new()
                .stack_size(16 << 20)
                .spawn(move || -> Result<(BTreeMap<String, String>, u64), (String, String)> {
                    barrier.wait();
                    let mut mine = BTreeMap::new();
                    let mut evals = 0u64;
                    let n = items.len();
                    for r in 0..rounds {
                        for k in 0..n {
                            // every thread starts somewhere else, so different items overlap
                            let (label, kind, text) = &items[(k + t * 3 + r) % n];
                            let out = run_item(kind, text, Some(&shared));
                            let d = format!("{:016x}", fnv(out.as_bytes()));
                            evals += 1;
                            if let Some(Some(want)) = reference.as_ref().as_ref().map(|m| m.get(label)) {
                                if *want != d {
                                    return Err((label.clone(), out));
                                }
                            }
                            if let Some(prev) = mine.insert(label.clone(), d.clone()) {
                                if prev != d {
                                    return Err((label.clone(), out));
                                }
                            }
                        }
                    }
                    Ok((mine, evals))
                })
                .expect("spawn")
        })
        .collect();
    let mut outputs: BTreeMap<String, String> = BTreeMap::new();
    let mut evals = 0u64;
    for (t, h) in handles.into_iter().enumerate() {
        match h.join() {
            Ok(Ok((mine, e))) => {
                evals += e;
                for (k, v) in mine {
                    if let Some(prev) = outputs.insert(k.clone(), v.clone()) {
                        if prev != v {
                            println!("{}", json!({"fail": {"sig": format!("C31|threads|output-differs|{}", k), "item": k, "detail": format!("two threads of one process produced different outputs for item `{}`", k)}}));
                            return 0;
                        }
                    }
                }
            }
            Ok(Err((label, out))) => {
                println!("{}", json!({"fail": {"sig": format!("C31|threads|output-differs|{}", label), "item": label, "detail": format!("thread {} produced an output for item `{}` that differs from the sequential run's (or from its own earlier output)", t, label), "text": out}}));
                return 0;
            }
            Err(_) => {
                println!("{}", json!({"fail": {"sig": "C31|threads|panic", "detail": format!("thread {} panicked in the shared-schema workload", t)}}));
                return 0;
            }
        }
    }
    println!("{}", json!({"outputs": outputs, "evals": evals, "items": items.len()}));
    0
}

/// `--mode ids --threads T --total N [--start V]`: real threads hammering FileId::new.
fn aux_ids(args: &[String]) -> i32 {
    let threads: usize = arg(args, "--threads").and_then(|s| s.parse().ok()).unwrap_or(16);
    let total: usize = arg(args, "--total").and_then(|s| s.parse().ok()).unwrap_or(1_000_000);
    let start: Option<u64> = arg(args, "--start").and_then(|s| s.parse().ok());
    if let Some(s) = start {
        verif_hooks::preset_next_file_id(s);
    }
    let first = verif_hooks::peek_next_file_id();
    let per = total / threads;
    let barrier = Arc::new(Barrier::new(threads));
    let handles: Vec<_> = (0..threads)
        .map(|_| {
            let barrier = barrier.clone();
            std::thread::spawn(move || {
                let mut v = Vec::with_capacity(per);
                barrier.wait();
                for _ in 0..per {
                    v.push(verif_hooks::file_id_value(FileId::new()));
                }
                v
            })
        })
        .collect();
    let mut all: Vec<u64> = Vec::with_capacity(per * threads);
    let mut interleaved = 0u64;
    for h in handles {
        match h.join() {
            Ok(v) => {
                // a gap inside one thread's ids means another thread allocated in between
                interleaved += v.windows(2).filter(|w| w[1] != w[0] + 1).count() as u64;
                all.extend(v);
            }
            Err(_) => {
                println!("{}", json!({"fail": {"sig": "C31|ids-threads|panic", "detail": "a thread panicked in FileId::new"}}));
                return 0;
            }
        }
    }
    let n = all.len() as u64;
    if let Some(bad) = all.iter().find(|&&id| id <= 2 || id & TAG != 0) {
        println!("{}", json!({"fail": {"sig": if *bad <= 2 { "C31|ids-threads|reserved" } else { "C31|ids-threads|tag-bit-set" }, "detail": format!("{} threads, counter at {}: id {:#x} was handed out", threads, first, bad)}}));
        return 0;
    }
    let wraps = n > TAG - first;
    let mut pre: Vec<u64> = if wraps { all.iter().copied().filter(|&id| id >= first).collect() } else { all };
    pre.sort_unstable();
    if let Some(w) = pre.windows(2).find(|w| w[0] == w[1]) {
        println!("{}", json!({"fail": {"sig": if wraps { "C31|ids-threads|duplicate-before-wrap" } else { "C31|ids-threads|duplicate" }, "detail": format!("{} threads x {} allocations, counter at {}: id {} was handed out twice", threads, per, first, w[0])}}));
        return 0;
    }
    println!("{}", json!({"ids": n, "distinct_checked": pre.len(), "interleavings": interleaved, "wraps": wraps}));
    0
}

/// `--mode shuttle --seed S --start A --end B --iters N --persist DIR`: cases A..B of the exploration, each
/// explored with shuttle's random or PCT scheduler for N executions.
fn aux_shuttle(args: &[String]) -> i32 {
    let seed: u64 = arg(args, "--seed").and_then(|s| s.parse().ok()).unwrap_or(0);
    let a: u64 = arg(args, "--start").and_then(|s| s.parse().ok()).unwrap_or(0);
    let b: u64 = arg(args, "--end").and_then(|s| s.parse().ok()).unwrap_or(0);
    let iters: usize = arg(args, "--iters").and_then(|s| s.parse().ok()).unwrap_or(50);
    let persist = arg(args, "--persist").unwrap_or_else(|| format!("{}/.work/c31-shuttle-{}", verif_root(), std::process::id()));
    let _ = std::fs::create_dir_all(&persist);
    let acc = Arc::new(Mutex::new(Acc::default()));
    for i in a..b {
        let bytes = gen_case(seed, "C31", 800, i, 24);
        let mut c = Choices::new(&bytes);
        let case = IdCase::decode(&mut c);
        let kind = c.choose(3); // 0, 1: random; 2: PCT
        let sseed = fnv(format!("{}|shuttle|{}", seed, i).as_bytes());
        // stale schedule files from an earlier failure must not be mistaken for this one's
        if let Ok(rd) = std::fs::read_dir(&persist) {
            for e in rd.flatten() {
                let _ = std::fs::remove_file(e.path());
            }
        }
        let r = if kind < 2 {
            run_shuttle(&case, RandomScheduler::new_from_seed(sseed, iters), acc.clone(), Some(&persist))
        } else {
            // PCT needs a plain context switch as schedule point (a yield would reset priorities every time)
            let case = IdCase { point: 1, ..case.clone() };
            run_shuttle(&case, PctScheduler::new_from_seed(sseed, 1 + c.choose(3), iters), acc.clone(), Some(&persist))
        };
        let case = if kind < 2 { case } else { IdCase { point: 1, ..case } };
        if let Err((sig, detail)) = r {
            // the failing schedule, as persisted by shuttle
            let mut schedule = String::new();
            if let Ok(rd) = std::fs::read_dir(&persist) {
                let mut files: Vec<_> = rd.flatten().map(|e| e.path()).collect();
                files.sort();
                if let Some(p) = files.last() {
                    schedule = std::fs::read_to_string(p).unwrap_or_default().trim().to_string();
                }
            }
            // confirm with shuttle's replay scheduler
            let confirmed = if schedule.is_empty() {
                false
            } else {
                match catch_unwind(|| ReplayScheduler::new_from_encoded(&schedule)) {
                    Ok(s) => matches!(run_shuttle(&case, s, Arc::new(Mutex::new(Acc::default())), Some(&persist)), Err((s2, _)) if s2 == sig),
                    Err(_) => false,
                }
            };
            let _ = std::fs::remove_dir_all(&persist);
            println!(
                "{}",
                json!({"fail": {"sig": sig, "detail": detail, "schedule": schedule, "replay_confirmed": confirmed, "scheduler": if kind < 2 { "random" } else { "pct" }, "index": i, "hex": hex(&case.to_bytes(&schedule)), "case": case.render()}})
            );
            return 0;
        }
    }
    let _ = std::fs::remove_dir_all(&persist);
    let a = acc.lock().unwrap();
    println!(
        "{}",
        json!({"evals": a.evals, "keys": a.keys.iter().map(|k| format!("{:x}", k)).collect::<Vec<_>>(), "classes": a.classes, "sample": a.sample})
    );
    0
}

pub fn aux(args: &[String]) -> i32 {
    match arg(args, "--mode").as_deref() {
        Some("shuttle") => aux_shuttle(args),
        Some("ids") => aux_ids(args),
        Some("workload") => aux_workload(args),
        _ => {
            eprintln!("C31 aux: unknown mode");
            4
        }
    }
}

// ------------------------------------------------------------------------------------------------
// Parent

struct ChildOut {
    status: Option<i32>,
    last: Option<Value>,
    timed_out: bool,
}

fn child(exe: &str, args: &[String], limit_s: u64) -> Result<ChildOut, String> {
    use std::io::Read;
    let mut ch = Command::new(exe)
        .arg("aux").arg("--prop").arg("C31")
        .args(args)
        .env_remove("SHUTTLE_RANDOM_SEED")
        .stdin(Stdio::null())
        .stdout(Stdio::piped())
        .stderr(Stdio::null())
        .spawn()
        .map_err(|e| e.to_string())?;
    let mut so = ch.stdout.take().unwrap();
    let reader = std::thread::spawn(move || {
        let mut s = String::new();
        let _ = so.read_to_string(&mut s);
        s
    });
    let t0 = std::time::Instant::now();
    let mut timed_out = false;
    let status = loop {
        match ch.try_wait() {
            Ok(Some(st)) => break st.code(),
            Ok(None) => {
                if t0.elapsed().as_secs() > limit_s {
                    let _ = ch.kill();
                    let _ = ch.wait();
                    timed_out = true;
                    break None;
                }
                std::thread::sleep(std::time::Duration::from_millis(20));
            }
            Err(e) => return Err(e.to_string()),
        }
    };
    let text = reader.join().unwrap_or_default();
    let last = text.lines().last().and_then(|l| serde_json::from_str::<Value>(l).ok());
    Ok(ChildOut { status, last, timed_out })
}

fn s(x: impl ToString) -> String {
    x.to_string()
}

fn custom(cfg: &RunCfg) -> CustomReport {
    let mut rep = CustomReport::new();
    let quick = cfg.tier == Tier::Quick;
    let jobs: usize = std::env::var("VERIF_JOBS").ok().and_then(|s| s.parse().ok()).unwrap_or(16);
    let work = format!("{}/.work", verif_root());
    let _ = std::fs::create_dir_all(&work);

    // (a) shuttle's own schedulers, in child processes (one exploration at a time per process)
    let (cases, iters): (u64, usize) = if quick { (400, 50) } else { (4000, 100) };
    let nchildren = jobs.min(cases as usize).max(1) as u64;
    let per = cases.div_ceil(nchildren);
    let handles: Vec<_> = (0..nchildren)
        .filter(|k| k * per < cases)
        .map(|k| {
            let exe = cfg.exe.clone();
            let (a, b) = (k * per, ((k + 1) * per).min(cases));
            let seed = cfg.seed;
            let persist = format!("{}/c31-shuttle-{}-{}", work, std::process::id(), k);
            std::thread::spawn(move || {
                child(&exe, &[s("--mode"), s("shuttle"), s("--seed"), s(seed), s("--start"), s(a), s("--end"), s(b), s("--iters"), s(iters), s("--persist"), persist], 1200)
            })
        })
        .collect();
    let mut shuttle_execs = 0u64;
    for h in handles {
        match h.join() {
            Ok(Ok(o)) => {
                if o.timed_out {
                    rep.inconclusive = Some("a shuttle exploration child exceeded its wall-clock limit".into());
                    continue;
                }
                let Some(v) = o.last else {
                    rep.inconclusive = Some(format!("a shuttle exploration child ended without a result (status {:?})", o.status));
                    continue;
                };
                if let Some(f) = v.get("fail") {
                    let sig = f["sig"].as_str().unwrap_or("C31|ids").to_string();
                    if !rep.failures.iter().any(|x| x.sig == sig) {
                        rep.failures.push(Failure {
                            stage: "shuttle-replay".into(),
                            index: f["index"].as_u64().unwrap_or(0),
                            bytes: f["hex"].as_str().map(unhex),
                            sig,
                            detail: format!(
                                "{}\nfound by shuttle's {} scheduler; failing schedule (for shuttle::replay): {}\nreplayed with shuttle's ReplayScheduler in the same child: {}",
                                f["detail"].as_str().unwrap_or(""),
                                f["scheduler"].as_str().unwrap_or("?"),
                                f["schedule"].as_str().unwrap_or(""),
                                if f["replay_confirmed"] == true { "same failure" } else { "NOT reproduced" }
                            ),
                            rendered: f["case"].as_str().unwrap_or("").to_string(),
                            shrunk: false,
                        });
                    }
                    continue;
                }
                let e = v["evals"].as_u64().unwrap_or(0);
                shuttle_execs += e;
                rep.evaluations += e;
                if let Some(keys) = v["keys"].as_array() {
                    for k in keys {
                        if let Some(x) = k.as_str().and_then(|s| u64::from_str_radix(s, 16).ok()) {
                            rep.nontrivial_keys.insert(x ^ 0x5348_5554);
                        }
                    }
                }
                if let Some(o) = v["classes"].as_object() {
                    for (k, c) in o {
                        *rep.classes.entry(format!("shuttle/{}", k)).or_insert(0) += c.as_u64().unwrap_or(0);
                    }
                }
                if rep.samples.len() < 2 {
                    if let Some(sm) = v["sample"].as_str() {
                        rep.samples.push(json!({"stage": "custom/shuttle", "class": "preempted", "case": sm}));
                    }
                }
            }
            Ok(Err(e)) => rep.inconclusive = Some(format!("shuttle exploration child could not be run: {}", e)),
            Err(_) => rep.inconclusive = Some("collector thread panicked".into()),
        }
    }
    rep.notes.push(format!("shuttle random/PCT: {} configurations x {} executions = {} schedules in {} child processes", cases, iters, shuttle_execs, nchildren));

    // (c1) real threads allocating ids
    let total = if quick { 1_000_000 } else { 8_000_000 };
    let id_runs: Vec<Vec<String>> = vec![
        vec![s("--mode"), s("ids"), s("--threads"), s(16), s("--total"), s(total)],
        vec![s("--mode"), s("ids"), s("--threads"), s(16), s("--total"), s(64_000), s("--start"), s(0xFFFF_FFFFu64 - 1000)],
        // crosses the wrap: only validity and pre-wrap distinctness are required
        vec![s("--mode"), s("ids"), s("--threads"), s(16), s("--total"), s(160_000), s("--start"), s(TAG - 40_000)],
    ];
    for args in id_runs {
        match child(&cfg.exe, &args, 600) {
            Ok(o) if o.timed_out => rep.inconclusive = Some("the id stress child exceeded its wall-clock limit".into()),
            Ok(o) => match o.last {
                Some(v) if v.get("fail").is_some() => {
                    let f = &v["fail"];
                    rep.failures.push(Failure { stage: "custom/ids-threads".into(), index: 0, bytes: None, sig: f["sig"].as_str().unwrap_or("C31|ids-threads").to_string(), detail: f["detail"].as_str().unwrap_or("").to_string(), rendered: format!("verif aux --prop C31 {}", args.join(" ")), shrunk: false });
                }
                Some(v) if v.get("ids").is_some() => {
                    rep.evaluations += v["ids"].as_u64().unwrap_or(0);
                    *rep.classes.entry(format!("ids-threads/{}", if v["wraps"] == true { "crosses-wrap" } else { "below-wrap" })).or_insert(0) += v["ids"].as_u64().unwrap_or(0);
                    rep.notes.push(format!("real threads: {} ids from 16 threads, {} gaps inside a thread's id sequence (= other threads interleaved), wraps = {}", v["ids"], v["interleavings"], v["wraps"]));
                    if v["interleavings"].as_u64().unwrap_or(0) > 0 {
                        rep.nontrivial_keys.insert(fnv(args.join(" ").as_bytes()));
                    }
                }
                _ => rep.inconclusive = Some(format!("the id stress child ended without a result (status {:?})", o.status)),
            },
            Err(e) => rep.inconclusive = Some(format!("id stress child could not be run: {}", e)),
        }
    }

    // (c2) shared-schema workload: sequential reference in one process, 16 threads in others
    let ref_path = format!("{}/c31-ref-{}.json", work, std::process::id());
    let seq = child(&cfg.exe, &[s("--mode"), s("workload"), s("--seed"), s(cfg.seed), s("--threads"), s(1), s("--rounds"), s(1)], 600);
    let mut have_ref = false;
    match seq {
        Ok(o) if o.timed_out => rep.inconclusive = Some("the sequential workload child exceeded its wall-clock limit".into()),
        Ok(o) => match o.last {
            Some(v) if v.get("outputs").is_some() => {
                have_ref = std::fs::write(&ref_path, v.to_string()).is_ok();
            }
            Some(v) if v.get("fail").is_some() => {
                let f = &v["fail"];
                rep.failures.push(Failure { stage: "custom/workload".into(), index: 0, bytes: None, sig: f["sig"].as_str().unwrap_or("C31|threads").to_string(), detail: format!("in the SEQUENTIAL run: {}", f["detail"].as_str().unwrap_or("")), rendered: String::new(), shrunk: false });
            }
            _ => rep.inconclusive = Some(format!("the sequential workload child ended without a result (status {:?})", o.status)),
        },
        Err(e) => rep.inconclusive = Some(format!("sequential workload child could not be run: {}", e)),
    }
    if have_ref {
        let (procs, rounds) = if quick { (3, 12) } else { (10, 60) };
        let handles: Vec<_> = (0..procs)
            .map(|p| {
                let (exe, seed, ref_path) = (cfg.exe.clone(), cfg.seed, ref_path.clone());
                // all processes at once: their threads compete for the cores
                std::thread::spawn(move || {
                    std::thread::sleep(std::time::Duration::from_millis(if p % 2 == 1 { 30 } else { 0 }));
                    // what the threads of this process do first (0: build the shared schema; 1: odd threads,
                    // 2: all threads first validate a schema whose built-in scalar definitions were removed by
                    // hand): lazily initialised process-wide tables must not depend on who touches them first
                    child(&exe, &[s("--mode"), s("workload"), s("--seed"), s(seed), s("--threads"), s(16), s("--rounds"), s(rounds), s("--first"), s(p % 3), s("--ref"), ref_path], 900)
                })
            })
            .collect();
        for (p, h) in handles.into_iter().enumerate() {
            let p = p as u64;
            match h.join().unwrap_or_else(|_| Err("collector thread panicked".into())) {
                Ok(o) if o.timed_out => rep.inconclusive = Some("a concurrent workload child exceeded its wall-clock limit".into()),
                Ok(o) => match o.last {
                    Some(v) if v.get("fail").is_some() => {
                        let f = &v["fail"];
                        let mut detail = f["detail"].as_str().unwrap_or("").to_string();
                        if let Some(item) = f["item"].as_str() {
                            // the sequential run's text of that item, from a fresh process
                            if let Ok(d) = child(&cfg.exe, &[s("--mode"), s("workload"), s("--seed"), s(cfg.seed), s("--threads"), s(1), s("--dump"), s(item)], 300) {
                                if let Some(t) = d.last.as_ref().and_then(|v| v["text"].as_str()) {
                                    detail.push_str(&format!("\n--- sequential output:\n{}", truncate(t, 1500)));
                                }
                            }
                        }
                        if let Some(t) = f["text"].as_str() {
                            detail.push_str(&format!("\n--- concurrent output:\n{}", truncate(t, 1500)));
                        }
                        let sig = f["sig"].as_str().unwrap_or("C31|threads").to_string();
                        if !rep.failures.iter().any(|x| x.sig == sig) {
                            rep.failures.push(Failure { stage: "custom/workload".into(), index: p, bytes: None, sig, detail, rendered: format!("16 threads x {} rounds over the work items, shared schema:\n{}", rounds, SHARED_SDL), shrunk: false });
                        }
                    }
                    Some(v) if v.get("outputs").is_some() => {
                        rep.evaluations += v["evals"].as_u64().unwrap_or(0);
                        *rep.classes.entry("workload/thread-item-runs".into()).or_insert(0) += v["evals"].as_u64().unwrap_or(0);
                        rep.nontrivial_keys.insert(fnv(format!("workload|{}", p).as_bytes()));
                    }
                    _ if o.status.is_none() => {
                        // killed by a signal (segfault / abort) while 16 threads shared one schema
                        rep.failures.push(Failure { stage: "custom/workload".into(), index: p, bytes: None, sig: "C31|threads|crash".into(), detail: "the 16-thread shared-schema workload process was killed by a signal".into(), rendered: format!("verif aux --prop C31 --mode workload --seed {} --threads 16 --rounds {}", cfg.seed, rounds), shrunk: false });
                    }
                    _ => rep.inconclusive = Some(format!("a concurrent workload child ended without a result (status {:?})", o.status)),
                },
                Err(e) => rep.inconclusive = Some(format!("concurrent workload child could not be run: {}", e)),
            }
        }
        rep.notes.push(format!("shared-schema workload: {} processes x 16 threads x {} rounds, compared with a sequential run in another process", procs, rounds));
    }
    let _ = std::fs::remove_file(&ref_path);
    rep
}
