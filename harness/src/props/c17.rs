//! C17 Executable validation agrees with the specification (differential against
//! `refmodel::execvalid`).
use crate::choices::Choices;
use crate::gen::operation::{self, OpOpts};
use crate::gen::opmutate;
use crate::gen::schema as gschema;
use crate::refmodel::ast::Document;
use crate::refmodel::execvalid::{self, Verdict};
use crate::refmodel::parser::parse_document;
use crate::refmodel::printer::print_document;
use crate::refmodel::schema::RefSchema;
use crate::runner::{Ctx, Outcome, Prop, Tier};
use apollo_compiler::validation::Valid;
use apollo_compiler::{ExecutableDocument, Schema};
use std::collections::BTreeSet;

pub const SEP: &str = "\n#---\n";

pub fn prop() -> Prop {
    Prop::new(
        "C17",
        "Executable validation agrees with the specification",
        "Cases: a schema valid by construction (gen::schema) and an executable document valid by construction against it \
         (gen::operation: all operation types, aliases, arguments of every input type, pooled variables with defaults and \
         directives, named/inline fragments on objects/interfaces/unions, nested spreads, @skip/@include and custom \
         directives, meta-fields, fields that must merge), then 0-2 rule-targeted mutators (one per rule / sub-case of \
         spec section 5) or validity-preserving mutations. Both texts are printed from the reference AST; apollo runs \
         Schema::parse_and_validate + ExecutableDocument::parse_and_validate; the reference verdict is computed by \
         PARSING THE PRINTED TEXTS with the reference parser and running refmodel::execvalid (never from knowledge of \
         the mutator). Compared: Ok/Err. Non-trivial: at least one mutator was applied; distinct by the two texts. \
         Classes: mutator x reference verdict; violated:<rule code> for every code the reference reports; \
         satisfied:<construct> for the constructs of documents the reference accepts; unspecified:<reason>. \
         Two cases in three use a schema extended by a fixed fixture (gen::opfixture: arguments of every input type, \
         interface with two implementers of differing field shapes, union, custom directives on every executable location). \
         One schema in three re-defines built-in directives (gen::builtin_redef: @skip/@include/@deprecated/@specifiedBy with the \
         built-in arguments, repeatable and/or with more or fewer locations); documents apply directives as the definition in \
         force says. Context-dependent mutators (gen::opmutate_ctx): one named fragment spread at several sites with \
         site-dependent validity (impossible at a later site, directly / inside another fragment / through a wrapper fragment; \
         a merge conflict beside one spread), several operations sharing a fragment with per-operation variable definitions \
         (one operation lacks the variable, defines it with a type not allowed at the fragment's usage, or defines a variable \
         only another operation uses), and their valid counterparts (extract a fragment, spread it again where possible, copy \
         an operation, a stricter variable type in one operation, apply a directive at any location its definition lists, \
         twice when repeatable). Classes ctx:<construct>|<verdict> count these documents. Look-alike copies \
         (gen::opmutate_copy): a valid set `... on A {k: f} ... on B {k: g}` and a copy with content-equal fields whose \
         second condition is not exclusive with A, below the same or another field / set / operation, in either order \
         (merge-copy-conflict; n-merge-copy is the valid counterpart); a new list-typed variable at a list position with \
         the nullability of every wrapper drawn independently of the location and a default on the variable or not \
         (var-list-position).",
    )
    .random("pairs", check, |t| if t == Tier::Quick { 250_000 } else { 3_000_000 }, |t| if t == Tier::Quick { 700 } else { 1000 })
    .text(check_text)
    .case_timeout(120)
    .assumptions(&[
        "oracle = refmodel::execvalid, written from the October 2021 spec text (graphql-js is not installable offline)",
        "encoded apollo differences: operation on an undefined root type is invalid; @skip/@include among a subscription's root selections is invalid; a type condition equal to the parent type always applies",
        "reference verdict Unspecified (cases run for crashes only): arguments of merging fields equal only up to object field order / number formatting / string syntax; variables inside custom-scalar literals; numeric literals outside f64; a bare (non-list) item inside a list literal whose item type is itself a list (October 2021 table vs prose); @skip/@include below a non-applying fragment at a subscription root",
        "never generated: @defer/@stream; nesting deeper than 8 fields; documents above ~60 selections",
        "the schema side is always valid (gen::schema); schema/document pairs whose schema apollo rejects are skipped and counted",
    ])
}

pub struct Case {
    pub schema_doc: Document,
    pub doc: Document,
    pub mutators: Vec<&'static str>,
}

/// Decode one schema + executable document pair (shared with C18–C20). The mutation plan is read
/// FIRST so that it does not depend on how much of the stream the generators consume.
pub fn gen_case(c: &mut Choices, allow_mutation: bool) -> Case {
    gen_case_mode(c, if allow_mutation { Mode::Rules } else { Mode::Unmutated })
}

#[derive(Clone, Copy, PartialEq, Eq, Debug)]
pub enum Mode {
    /// no mutation: valid by construction
    Unmutated,
    /// 0-2 mutators, rule-targeted or validity preserving (C17, C18)
    Rules,
    /// 0-2 validity-preserving mutations only (C19, C20: properties about VALID documents)
    Neutral,
}

pub fn gen_case_mode(c: &mut Choices, mode: Mode) -> Case {
    let allow_mutation = mode != Mode::Unmutated;
    let n_mut = c.weighted(&[15, 65, 20]);
    let plan = c.bytes(24);
    let finding_constructs = c.bool(40);
    let sub_heavy = c.bool(64);
    let with_fixture = c.bool(150);
    let redefine_builtins = c.bool(90);
    let fragment_heavy = c.bool(70);
    let sopts = gschema::Opts::default();
    let mut schema_doc = gschema::schema(c, &sopts);
    if with_fixture {
        crate::gen::opfixture::add_fixture(&mut schema_doc);
    }
    if c.bool(60) {
        gschema::split_extensions(c, &mut schema_doc);
    }
    if redefine_builtins {
        crate::gen::builtin_redef::redefine_builtins(c, &mut schema_doc);
    }
    let rs = RefSchema::from_document(&schema_doc);
    let opts = OpOpts { null_in_custom_scalar_list: finding_constructs, subscription_weight: if sub_heavy { 150 } else { 15 }, spread_weight: if fragment_heavy { 45 } else { 14 }, reuse_bias: if fragment_heavy { 170 } else { 110 }, ..OpOpts::default() };
    let mut doc = operation::valid_document(c, &rs, &opts);
    let mut mutators = vec![];
    if allow_mutation {
        let mut pc = Choices::new(&plan);
        for _ in 0..n_mut {
            let m = if mode == Mode::Neutral { opmutate::mutate_neutral(&mut pc, &mut doc, &rs) } else { opmutate::mutate(&mut pc, &mut doc, &rs) };
            if let Some(m) = m {
                mutators.push(m);
            }
        }
    }
    Case { schema_doc, doc, mutators }
}

pub fn apollo_schema(text: &str) -> Result<Valid<Schema>, String> {
    Schema::parse_and_validate(text, "s.graphql").map_err(|e| e.errors.to_string())
}

/// Normalised, sorted, de-duplicated diagnostic kinds. `UnsupportedValueType` is refined by the
/// category of the expected type and the kind of value, read from apollo's message
/// ("expected value of type T, found V"), so that one known finding does not hide others.
pub fn diagnostic_kinds(errors: &apollo_compiler::validation::DiagnosticList, rs: Option<&RefSchema>) -> Vec<String> {
    let mut kinds: Vec<String> = errors
        .iter()
        .map(|d| match d.error.unstable_error_name() {
            Some("UnsupportedValueType") => {
                let m = d.error.to_string();
                let m = m.lines().next().unwrap_or("");
                match (m.strip_prefix("expected value of type "), rs) {
                    (Some(rest), Some(rs)) => {
                        let (ty, found) = rest.split_once(", found ").unwrap_or((rest, "?"));
                        let inner: String = ty.chars().filter(|c| !matches!(c, '[' | ']' | '!')).collect();
                        let cat = if crate::refmodel::schema::BUILTIN_SCALARS.contains(&inner.as_str()) {
                            inner.clone()
                        } else {
                            match rs.kind(&inner) {
                                Some(crate::refmodel::ast::TypeKind::Scalar) => "CustomScalar".into(),
                                Some(crate::refmodel::ast::TypeKind::Enum) => "Enum".into(),
                                Some(crate::refmodel::ast::TypeKind::InputObject) => "InputObject".into(),
                                _ => "Other".into(),
                            }
                        };
                        format!("UnsupportedValueType({} <- {})", ty.replace(&inner, &cat), found)
                    }
                    _ => "UnsupportedValueType".to_string(),
                }
            }
            Some(n) => n.to_string(),
            None => {
                let m = d.error.to_string();
                if m.starts_with("syntax error") {
                    "SyntaxError".to_string()
                } else if m.contains("limit") {
                    "ParserLimit".to_string()
                } else {
                    "Other".to_string()
                }
            }
        })
        .collect();
    kinds.sort();
    kinds.dedup();
    kinds
}

pub fn reference_verdict(schema_text: &str, doc_text: &str) -> Result<(Verdict, RefSchema), String> {
    let sd = parse_document(schema_text).map_err(|e| format!("reference parser rejects the schema text: {}", e.code()))?;
    let rs = RefSchema::from_document(&sd);
    match parse_document(doc_text) {
        Err(_) => Ok((Verdict::Invalid(["E.syntax".to_string()].into()), rs)),
        Ok(d) => Ok((execvalid::validate(&rs, &d), rs)),
    }
}

pub fn check_pair(schema_text: &str, doc_text: &str, label: &str, ctx: &mut Ctx) -> Outcome {
    let (reference, rs) = match reference_verdict(schema_text, doc_text) {
        Ok(v) => v,
        Err(_) => return ctx.skip("schema text not parsed by the reference parser"),
    };
    ctx.class(format!("{}|{}", label, reference.label()));
    // rule x verdict: every rule code the reference reports (violated), and for documents the
    // reference accepts the constructs they contain (the rules those constructs exercise are
    // satisfied)
    match &reference {
        Verdict::Invalid(codes) => {
            for c in codes {
                ctx.class(format!("violated:{}", c));
            }
        }
        Verdict::Valid => {
            for c in constructs(doc_text) {
                ctx.class(format!("satisfied:{}", c));
            }
        }
        Verdict::Unspecified(why) => {
            for w in why {
                ctx.class(format!("unspecified:{}", w));
            }
        }
    }
    for c in context_constructs(&rs, doc_text) {
        ctx.class(format!("ctx:{}|{}", c, reference.label()));
    }
    let schema = match apollo_schema(schema_text) {
        Ok(s) => s,
        Err(_) => return ctx.skip("apollo rejects the schema"),
    };
    let apollo = ExecutableDocument::parse_and_validate(&schema, doc_text, "q.graphql");
    // One signature per root cause: each reference rule code that apollo misses, and each
    // diagnostic kind apollo reports on a valid document, is a failure of its own; the first one
    // that is not a listed known finding is reported (so an apollo-accepts case counts as known
    // only if EVERY rule code is listed).
    match (&apollo, &reference) {
        (Ok(_), Verdict::Valid) | (Err(_), Verdict::Invalid(_)) => Outcome::Pass,
        (_, Verdict::Unspecified(_)) => Outcome::Pass,
        (Ok(_), Verdict::Invalid(codes)) => {
            let all: Vec<String> = codes.iter().cloned().collect();
            let fails = all
                .iter()
                .map(|code| {
                    (
                        format!("C17|accepts|{}", code),
                        format!("apollo accepts, the reference rejects with {:?}\n--- schema\n{}\n--- document\n{}", all, schema_text, doc_text),
                    )
                })
                .collect();
            ctx.pick_failure(fails)
        }
        (Err(e), Verdict::Valid) => {
            let kinds = diagnostic_kinds(&e.errors, Some(&rs));
            let fails = kinds
                .iter()
                .map(|k| {
                    (
                        format!("C17|rejects|{}", k),
                        format!("apollo rejects, the reference accepts. apollo diagnostics:\n{}\n--- schema\n{}\n--- document\n{}", e.errors, schema_text, doc_text),
                    )
                })
                .collect();
            ctx.pick_failure(fails)
        }
    }
}

/// Constructs present in a document text (labels for the histogram only).
pub fn constructs(doc_text: &str) -> Vec<&'static str> {
    let Ok(d) = parse_document(doc_text) else { return vec![] };
    use crate::refmodel::ast::*;
    let mut out: BTreeSet<&'static str> = BTreeSet::new();
    fn value(v: &Value, top: bool, out: &mut BTreeSet<&'static str>) {
        match v {
            Value::Var(_) => {
                out.insert(if top { "variable-usage-top" } else { "variable-usage-nested" });
            }
            Value::List(l) => {
                out.insert("list-literal");
                l.iter().for_each(|x| value(x, false, out));
            }
            Value::Object(o) => {
                out.insert("object-literal");
                o.iter().for_each(|(_, x)| value(x, false, out));
            }
            Value::Null => {
                out.insert("null-literal");
            }
            Value::Enum(_) => {
                out.insert("enum-literal");
            }
            _ => {
                out.insert("scalar-literal");
            }
        }
    }
    fn dirs(ds: &[Directive], out: &mut BTreeSet<&'static str>) {
        for d in ds {
            out.insert(if d.name == "skip" || d.name == "include" { "skip-include" } else { "custom-directive" });
            d.args.iter().for_each(|(_, v)| value(v, true, out));
        }
        let mut names: Vec<&str> = ds.iter().map(|d| d.name.as_str()).collect();
        names.sort();
        if names.windows(2).any(|w| w[0] == w[1]) {
            out.insert("repeated-directive");
        }
    }
    fn sels(ss: &[Selection], out: &mut BTreeSet<&'static str>) {
        let mut keys: Vec<&str> = vec![];
        for s in ss {
            match s {
                Selection::Field(f) => {
                    keys.push(f.response_key());
                    if f.alias.is_some() {
                        out.insert("alias");
                    }
                    if f.name.starts_with("__") {
                        out.insert("meta-field");
                    }
                    if !f.args.is_empty() {
                        out.insert("arguments");
                    }
                    out.insert(if f.selection_set.is_empty() { "leaf-field" } else { "composite-field" });
                    f.args.iter().for_each(|(_, v)| value(v, true, out));
                    dirs(&f.directives, out);
                    sels(&f.selection_set, out);
                }
                Selection::Inline(i) => {
                    out.insert(if i.type_condition.is_some() { "inline-fragment-typed" } else { "inline-fragment-untyped" });
                    dirs(&i.directives, out);
                    sels(&i.selection_set, out);
                }
                Selection::Spread(sp) => {
                    out.insert("fragment-spread");
                    dirs(&sp.directives, out);
                }
            }
        }
        keys.sort();
        if keys.windows(2).any(|w| w[0] == w[1]) {
            out.insert("same-key-siblings");
        }
    }
    let mut n_ops = 0;
    for def in &d.defs {
        match def {
            Definition::Operation(o) => {
                n_ops += 1;
                out.insert(match o.op {
                    OpType::Query => "query",
                    OpType::Mutation => "mutation",
                    OpType::Subscription => "subscription",
                });
                if o.name.is_none() {
                    out.insert("anonymous-operation");
                }
                for v in &o.vars {
                    out.insert("variable-definition");
                    if let Some(dv) = &v.default {
                        out.insert(if *dv == Value::Null { "variable-default-null" } else { "variable-default" });
                    }
                    dirs(&v.directives, &mut out);
                }
                dirs(&o.directives, &mut out);
                sels(&o.selection_set, &mut out);
            }
            Definition::Fragment(f) => {
                out.insert("fragment-definition");
                dirs(&f.directives, &mut out);
                sels(&f.selection_set, &mut out);
            }
            _ => {}
        }
    }
    if n_ops > 1 {
        out.insert("several-operations");
    }
    out.into_iter().collect()
}

/// Context-dependent constructs (labels for the histogram only): one named fragment used at
/// several places / by several operations, and applications of re-defined built-in directives.
pub fn context_constructs(rs: &RefSchema, doc_text: &str) -> Vec<&'static str> {
    use crate::refmodel::ast::*;
    let Ok(d) = parse_document(doc_text) else { return vec![] };
    let mut out: BTreeSet<&'static str> = BTreeSet::new();
    let sites = opmutate::sites(&d, rs);
    // spread sites per fragment name: (definition index, parent type)
    let mut by_name: std::collections::BTreeMap<String, Vec<(usize, Option<String>)>> = Default::default();
    fn sel_at<'d>(doc: &'d Document, p: &opmutate::Path) -> Option<&'d Selection> {
        let mut cur: &Vec<Selection> = match &doc.defs[p.def] {
            Definition::Operation(o) => &o.selection_set,
            Definition::Fragment(f) => &f.selection_set,
            _ => return None,
        };
        let (last, init) = p.idx.split_last()?;
        for &i in init {
            cur = match cur.get(i)? {
                Selection::Field(f) => &f.selection_set,
                Selection::Inline(f) => &f.selection_set,
                Selection::Spread(_) => return None,
            };
        }
        cur.get(*last)
    }
    for (p, parent) in &sites.spreads {
        if let Some(Selection::Spread(sp)) = sel_at(&d, p) {
            by_name.entry(sp.name.clone()).or_default().push((p.def, parent.clone()));
        }
    }
    for v in by_name.values() {
        if v.len() >= 2 {
            out.insert("fragment-at-several-sites");
            if v.iter().any(|x| x.1 != v[0].1) {
                out.insert("fragment-below-several-parent-types");
            }
        }
    }
    // fragments reached by several operations, and whether such a fragment uses a variable
    let frags: Vec<&FragmentDef> = d.defs.iter().filter_map(|x| if let Definition::Fragment(f) = x { Some(f) } else { None }).collect();
    let direct = |def: usize| -> Vec<String> { by_name.iter().filter(|(_, v)| v.iter().any(|x| x.0 == def)).map(|(n, _)| n.clone()).collect() };
    let mut reached_by: std::collections::BTreeMap<String, usize> = Default::default();
    for (i, def) in d.defs.iter().enumerate() {
        if !matches!(def, Definition::Operation(_)) {
            continue;
        }
        let mut seen: BTreeSet<String> = BTreeSet::new();
        let mut stack = direct(i);
        while let Some(n) = stack.pop() {
            if !seen.insert(n.clone()) {
                continue;
            }
            if let Some(fi) = d.defs.iter().position(|x| matches!(x, Definition::Fragment(f) if f.name == n)) {
                stack.extend(direct(fi));
            }
        }
        for n in seen {
            *reached_by.entry(n).or_default() += 1;
        }
    }
    for (n, k) in &reached_by {
        if *k >= 2 {
            out.insert("fragment-shared-by-operations");
            if let Some(f) = frags.iter().find(|f| f.name == *n) {
                let probe = OperationDef { op: OpType::Query, shorthand: false, name: None, vars: vec![], directives: vec![], selection_set: vec![Selection::Spread(FragmentSpread { name: f.name.clone(), directives: vec![] })] };
                if !operation::used_variables(&probe, &frags).is_empty() {
                    out.insert("shared-fragment-uses-variable");
                }
            }
        }
    }
    // re-defined built-in directives
    let redefined: Vec<&String> = rs.user_directives.iter().filter(|n| crate::gen::builtin_redef::REDEFINABLE.contains(&n.as_str())).collect();
    if !redefined.is_empty() {
        out.insert("schema-redefines-builtin-directive");
        let builtin = RefSchema::from_document(&Document { defs: vec![] });
        let mut visit = |ds: &[Directive], loc: &str, out: &mut BTreeSet<&'static str>| {
            for (i, x) in ds.iter().enumerate() {
                if !redefined.contains(&&x.name) {
                    continue;
                }
                out.insert("redefined-builtin-applied");
                if ds[..i].iter().any(|y| y.name == x.name) {
                    out.insert("redefined-builtin-repeated");
                }
                if !builtin.directive(&x.name).map_or(false, |b| b.locations.iter().any(|l| l == loc)) {
                    out.insert("redefined-builtin-at-added-location");
                }
            }
        };
        fn sels(ss: &[Selection], visit: &mut dyn FnMut(&[Directive], &str, &mut BTreeSet<&'static str>), out: &mut BTreeSet<&'static str>) {
            for s in ss {
                match s {
                    Selection::Field(f) => {
                        visit(&f.directives, "FIELD", out);
                        sels(&f.selection_set, visit, out);
                    }
                    Selection::Inline(i) => {
                        visit(&i.directives, "INLINE_FRAGMENT", out);
                        sels(&i.selection_set, visit, out);
                    }
                    Selection::Spread(sp) => visit(&sp.directives, "FRAGMENT_SPREAD", out),
                }
            }
        }
        for def in &d.defs {
            match def {
                Definition::Operation(o) => {
                    let loc = match o.op {
                        OpType::Query => "QUERY",
                        OpType::Mutation => "MUTATION",
                        OpType::Subscription => "SUBSCRIPTION",
                    };
                    visit(&o.directives, loc, &mut out);
                    for v in &o.vars {
                        visit(&v.directives, "VARIABLE_DEFINITION", &mut out);
                    }
                    sels(&o.selection_set, &mut visit, &mut out);
                }
                Definition::Fragment(f) => {
                    visit(&f.directives, "FRAGMENT_DEFINITION", &mut out);
                    sels(&f.selection_set, &mut visit, &mut out);
                }
                _ => {}
            }
        }
    }
    out.into_iter().collect()
}

pub fn split_pair(text: &str) -> (String, String) {
    match text.find(SEP) {
        Some(i) => (text[..i + 1].to_string(), text[i + SEP.len()..].to_string()),
        None => match text.find("#---") {
            Some(i) => (text[..i].to_string(), text[i + 4..].to_string()),
            None => (String::new(), text.to_string()),
        },
    }
}

pub fn check_text(text: &str, ctx: &mut Ctx) -> Outcome {
    let (s, d) = split_pair(text);
    ctx.nontrivial = true;
    ctx.set_sample(format!("{}{}{}", s, SEP, d));
    check_pair(&s, &d, "text", ctx)
}

pub fn check(bytes: &[u8], ctx: &mut Ctx) -> Outcome {
    let mut c = Choices::new(bytes);
    let case = gen_case(&mut c, true);
    let schema_text = print_document(&case.schema_doc);
    let doc_text = print_document(&case.doc);
    let label = if case.mutators.is_empty() { "none".to_string() } else { case.mutators.join(",") };
    ctx.nontrivial = !case.mutators.is_empty();
    ctx.set_sample(format!("{}{}{}", schema_text, SEP, doc_text));
    check_pair(&schema_text, &doc_text, &label, ctx)
}

/// `verif aux --prop C17 calib [--n N] [--seed S]`: unmutated documents must be accepted by apollo
/// and by the reference. `verif aux --prop C17 files`: the repository's mixed test files.
pub fn aux(args: &[String]) -> i32 {
    let arg = |name: &str| args.iter().position(|a| a == name).and_then(|i| args.get(i + 1)).cloned();
    if args.iter().any(|a| a == "files") {
        return calib_files();
    }
    if args.iter().any(|a| a == "case") {
        // print and time one generated case: `verif aux --prop C17 case --index N [--seed S]`
        let index: u64 = arg("--index").and_then(|s| s.parse().ok()).unwrap_or(0);
        let seed: u64 = arg("--seed").and_then(|s| s.parse().ok()).unwrap_or(20260921);
        let bytes = crate::runner::gen_case(seed, "C17", 0, index, 700);
        let mut c = Choices::new(&bytes);
        let case = gen_case(&mut c, true);
        let st = print_document(&case.schema_doc);
        let dt = print_document(&case.doc);
        println!("mutators {:?}\n{}{}{}", case.mutators, st, SEP, dt);
        let t = std::time::Instant::now();
        let r = reference_verdict(&st, &dt).map(|x| x.0);
        println!("reference {:?} in {:?}", r, t.elapsed());
        let t = std::time::Instant::now();
        if let Ok(schema) = apollo_schema(&st) {
            let a = ExecutableDocument::parse_and_validate(&schema, &dt, "q.graphql");
            println!("apollo {:?} in {:?}", a.as_ref().err().map(|e| diagnostic_kinds(&e.errors, None)), t.elapsed());
        }
        return 0;
    }
    if args.iter().any(|a| a == "find") {
        // print generated cases whose class label is `--label L|verdict`
        let want = arg("--label").unwrap_or_default();
        let n: u64 = arg("--n").and_then(|s| s.parse().ok()).unwrap_or(50000);
        let show: u64 = arg("--show").and_then(|s| s.parse().ok()).unwrap_or(3);
        let mut shown = 0;
        for i in 0..n {
            let bytes = crate::runner::gen_case(1, "C17", 0, i, 700);
            let mut c = Choices::new(&bytes);
            let case = gen_case(&mut c, true);
            let st = print_document(&case.schema_doc);
            let dt = print_document(&case.doc);
            let Ok((v, _)) = reference_verdict(&st, &dt) else { continue };
            let label = format!("{}|{}", if case.mutators.is_empty() { "none".to_string() } else { case.mutators.join(",") }, v.label());
            if label == want {
                println!("==== case {} {} {:?}\n{}{}{}", i, label, v, st, SEP, dt);
                shown += 1;
                if shown >= show {
                    break;
                }
            }
        }
        return 0;
    }
    let n: u64 = arg("--n").and_then(|s| s.parse().ok()).unwrap_or(20000);
    let seed: u64 = arg("--seed").and_then(|s| s.parse().ok()).unwrap_or(1);
    let show: u64 = arg("--show").and_then(|s| s.parse().ok()).unwrap_or(5);
    let (mut rejected, mut ref_invalid, mut ref_unspec, mut schema_bad) = (0u64, 0u64, 0u64, 0u64);
    let (mut with_vars, mut with_frags, mut subs, mut sel_total) = (0u64, 0u64, 0u64, 0u64);
    let neutral = args.iter().any(|a| a == "--neutral");
    let mut println_label;
    for i in 0..n {
        let bytes = crate::runner::gen_case(seed, "C17calib", 0, i, 700);
        let mut c = Choices::new(&bytes);
        // `--neutral`: valid by construction plus 0-2 validity-preserving mutations
        let case = gen_case_mode(&mut c, if neutral { Mode::Neutral } else { Mode::Unmutated });
        let st = print_document(&case.schema_doc);
        let dt = print_document(&case.doc);
        if neutral && !case.mutators.is_empty() {
            println_label = case.mutators.join(",");
        } else {
            println_label = String::new();
        }
        if dt.contains('$') {
            with_vars += 1;
        }
        if dt.contains("fragment ") {
            with_frags += 1;
        }
        if dt.contains("subscription") {
            subs += 1;
        }
        sel_total += dt.matches(|ch| ch == '{').count() as u64;
        let schema = match apollo_schema(&st) {
            Ok(s) => s,
            Err(_) => {
                schema_bad += 1;
                continue;
            }
        };
        match reference_verdict(&st, &dt).map(|x| x.0) {
            Ok(Verdict::Valid) => {}
            Ok(Verdict::Unspecified(w)) => {
                ref_unspec += 1;
                if ref_unspec <= show {
                    println!("==== case {} [{}] reference UNSPECIFIED {:?}\n{}{}{}", i, println_label, w, st, SEP, dt);
                }
            }
            Ok(Verdict::Invalid(c)) => {
                ref_invalid += 1;
                if ref_invalid <= show {
                    println!("==== case {} [{}] reference INVALID {:?}\n{}{}{}", i, println_label, c, st, SEP, dt);
                }
            }
            Err(e) => println!("==== case {} {}", i, e),
        }
        if let Err(e) = ExecutableDocument::parse_and_validate(&schema, &dt, "q.graphql") {
            rejected += 1;
            if rejected <= show {
                println!("==== case {} [{}] apollo REJECTS {:?}\n{}\n{}{}{}", i, println_label, diagnostic_kinds(&e.errors, None), e.errors, st, SEP, dt);
            }
        }
    }
    println!(
        "{} cases: apollo rejects {}, reference invalid {}, reference unspecified {}, schema rejected {}; with variables {}, with fragments {}, subscriptions {}, avg braces {:.1}",
        n, rejected, ref_invalid, ref_unspec, schema_bad, with_vars, with_frags, subs, sel_total as f64 / n as f64
    );
    0
}

/// Calibration against /repo/crates/apollo-compiler/test_data/{ok,diagnostics}: files that hold a
/// schema and operations in one text. Development aid, not a check.
fn calib_files() -> i32 {
    for dir in ["ok", "diagnostics"] {
        let base = format!("/repo/crates/apollo-compiler/test_data/{}", dir);
        let mut files: Vec<_> = std::fs::read_dir(&base).unwrap().filter_map(|e| e.ok()).map(|e| e.path()).filter(|p| p.extension().map(|x| x == "graphql").unwrap_or(false)).collect();
        files.sort();
        for p in files {
            let text = std::fs::read_to_string(&p).unwrap();
            let Ok(doc) = parse_document(&text) else {
                println!("{:<70} reference: syntax error", p.file_name().unwrap().to_string_lossy());
                continue;
            };
            let (exec, ts): (Vec<_>, Vec<_>) = doc.defs.iter().cloned().partition(|d| d.is_executable());
            if exec.is_empty() || ts.is_empty() {
                continue;
            }
            let st = print_document(&Document { defs: ts });
            let dt = print_document(&Document { defs: exec });
            let Ok(schema) = apollo_schema(&st) else {
                println!("{:<70} schema part rejected by apollo", p.file_name().unwrap().to_string_lossy());
                continue;
            };
            let a = ExecutableDocument::parse_and_validate(&schema, &dt, "q.graphql");
            let r = reference_verdict(&st, &dt).unwrap().0;
            let agree = matches!((&a, &r), (Ok(_), Verdict::Valid) | (Err(_), Verdict::Invalid(_)));
            println!(
                "{:<70} {} apollo={} reference={:?}",
                p.file_name().unwrap().to_string_lossy(),
                if agree { "agree   " } else { "DISAGREE" },
                match &a {
                    Ok(_) => "ok".to_string(),
                    Err(e) => format!("{:?}", diagnostic_kinds(&e.errors, None)),
                },
                r
            );
        }
    }
    0
}
