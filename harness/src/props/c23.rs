//! C23 Schema coordinates parse, print and resolve correctly.
use super::c10::valid_name;
use super::exh::{count_strings, nth_string};
use crate::choices::Choices;
use crate::gen;
use crate::gen::text;
use crate::refmodel::ast::TypeKind;
use crate::refmodel::printer::print_document;
use crate::refmodel::schema::{RefSchema, BUILTIN_SCALARS};
use crate::runner::{Ctx, Outcome, Prop, Tier};
use apollo_compiler::coordinate::{
    DirectiveArgumentCoordinate, DirectiveCoordinate, FieldArgumentCoordinate, SchemaCoordinate, SchemaCoordinateLookup, SchemaLookupError,
    TypeAttributeCoordinate, TypeCoordinate,
};
use apollo_compiler::schema::ExtendedType;
use apollo_compiler::Schema;
use std::collections::BTreeSet;
use std::str::FromStr;

/// Alphabet of the exhaustive stage: name start, name continue that is no start (digit), `_`,
/// and every punctuation character of the coordinate syntax, plus a space.
pub const ALPHABET: [char; 9] = ['a', '_', '1', '.', '(', ')', ':', '@', ' '];

fn max_len(t: Tier) -> u32 {
    if t == Tier::Quick {
        7
    } else {
        8
    }
}
/// Strings checked per enumerated case (keeps the runner's per-case bookkeeping — a distinctness
/// key per case — bounded for the 43 M strings of the thorough tier).
fn block(t: Tier) -> u64 {
    if t == Tier::Quick {
        1
    } else {
        9
    }
}
fn total_strings(t: Tier) -> u64 {
    count_strings(ALPHABET.len() as u64, max_len(t))
}

pub fn prop() -> Prop {
    Prop::new(
        "C23",
        "Schema coordinates parse, print and resolve correctly",
        "Enumerated stage (complete): every string of length <= 7 (thorough 8) over {a _ 1 . ( ) : @ SPACE}, index -> string by \
         length then base-9 digits (thorough: 9 consecutive strings per case, counted in sub_evaluations): \
         SchemaCoordinate::from_str and the five per-kind FromStr impls accept exactly their forms, with the right \
         parts, and print back to the input. Random stage: valid coordinates over longer names, one-character \
         mutations of them, punctuation/name soups and arbitrary Unicode. Lookup stage: valid schemas from gen::schema \
         (parsed and validated by apollo); every type x every attribute name in the schema, every field x every \
         argument name, every directive x every argument name, plus names that exist nowhere; lookup must return the \
         element the reference schema has under exactly those names (same kind, same name, same declared type) and \
         an error otherwise. Non-trivial: the string contains coordinate punctuation / the schema was accepted. \
         Distinct by string / schema text.",
    )
    .enumerated("coord-strings", check_index, |t| total_strings(t).div_ceil(block(t)))
    .random(
        "coord-random",
        check_random,
        |t| if t == Tier::Quick { 150_000 } else { 3_000_000 },
        |_| 96,
    )
    .random(
        "lookup",
        check_lookup,
        |t| if t == Tier::Quick { 12_000 } else { 150_000 },
        |t| if t == Tier::Quick { 500 } else { 800 },
    )
    .text(check_text)
    .assumptions(&[
        "no whitespace is allowed anywhere in a coordinate (the statement lists exactly five forms; coordinate.rs's own test rejects `@  spaces  `)",
        "meta-fields (`__typename`, `__schema`, `__type`) are not schema elements and are never looked up",
        "lookup errors are only required to be errors; which SchemaLookupError variant is returned is recorded as a class, not asserted",
        "a generated schema that apollo rejects is skipped here (schema validity is C14's property)",
        "the built-in scalars Int/Float/String/Boolean/ID are not looked up: schema/validation.rs documents that a Valid<Schema> drops the unused ones",
    ])
}

// ------------------------------------------------------------------------------------------------
// reference matcher for the five forms

#[derive(Clone, Debug, PartialEq, Eq)]
pub enum RefCoord {
    Type(String),
    Attr(String, String),
    FieldArg(String, String, String),
    Dir(String),
    DirArg(String, String),
}

impl RefCoord {
    pub fn form(&self) -> &'static str {
        match self {
            RefCoord::Type(_) => "Type",
            RefCoord::Attr(..) => "Type.attr",
            RefCoord::FieldArg(..) => "Type.field(arg:)",
            RefCoord::Dir(_) => "@dir",
            RefCoord::DirArg(..) => "@dir(arg:)",
        }
    }
    pub fn print(&self) -> String {
        match self {
            RefCoord::Type(t) => t.clone(),
            RefCoord::Attr(t, a) => format!("{}.{}", t, a),
            RefCoord::FieldArg(t, f, a) => format!("{}.{}({}:)", t, f, a),
            RefCoord::Dir(d) => format!("@{}", d),
            RefCoord::DirArg(d, a) => format!("@{}({}:)", d, a),
        }
    }
}

/// Longest prefix of `s` that is a Name (`[_A-Za-z][_0-9A-Za-z]*`), and the rest.
fn take_name(s: &str) -> Option<(&str, &str)> {
    let b = s.as_bytes();
    match b.first() {
        Some(c) if *c == b'_' || c.is_ascii_alphabetic() => {}
        _ => return None,
    }
    let mut i = 1;
    while i < b.len() && (b[i] == b'_' || b[i].is_ascii_alphanumeric()) {
        i += 1;
    }
    Some((&s[..i], &s[i..]))
}

/// `(Name:)` exactly.
fn take_arg(tail: &str) -> Option<&str> {
    let inner = tail.strip_prefix('(')?;
    let (arg, rest) = take_name(inner)?;
    if rest == ":)" {
        Some(arg)
    } else {
        None
    }
}

/// `Name` | `Name.Name` | `Name.Name(Name:)` | `@Name` | `@Name(Name:)`, nothing else.
pub fn ref_parse(s: &str) -> Option<RefCoord> {
    if let Some(rest) = s.strip_prefix('@') {
        let (d, tail) = take_name(rest)?;
        if tail.is_empty() {
            return Some(RefCoord::Dir(d.into()));
        }
        return Some(RefCoord::DirArg(d.into(), take_arg(tail)?.into()));
    }
    let (t, tail) = take_name(s)?;
    if tail.is_empty() {
        return Some(RefCoord::Type(t.into()));
    }
    let (a, tail) = take_name(tail.strip_prefix('.')?)?;
    if tail.is_empty() {
        return Some(RefCoord::Attr(t.into(), a.into()));
    }
    Some(RefCoord::FieldArg(t.into(), a.into(), take_arg(tail)?.into()))
}

fn view(c: &SchemaCoordinate) -> RefCoord {
    match c {
        SchemaCoordinate::Type(x) => RefCoord::Type(x.ty.to_string()),
        SchemaCoordinate::TypeAttribute(x) => RefCoord::Attr(x.ty.to_string(), x.attribute.to_string()),
        SchemaCoordinate::FieldArgument(x) => RefCoord::FieldArg(x.ty.to_string(), x.field.to_string(), x.argument.to_string()),
        SchemaCoordinate::Directive(x) => RefCoord::Dir(x.directive.to_string()),
        SchemaCoordinate::DirectiveArgument(x) => RefCoord::DirArg(x.directive.to_string(), x.argument.to_string()),
    }
}

/// Why the reference rejects (a coarse, input-independent root-cause class for signatures).
fn reject_class(s: &str) -> &'static str {
    if s.is_empty() {
        return "empty";
    }
    if s.chars().any(|c| c.is_whitespace()) {
        return "whitespace";
    }
    if !s.is_ascii() {
        return "non-ascii";
    }
    // a valid coordinate followed / preceded by junk?
    for cut in 1..s.len() {
        if ref_parse(&s[..cut]).is_some() {
            return "valid-prefix-plus-trailing";
        }
    }
    "malformed"
}

pub fn coord_checks(s: &str, fails: &mut Vec<(String, String)>) {
    let want = ref_parse(s);
    match (SchemaCoordinate::from_str(s), &want) {
        (Ok(c), Some(r)) => {
            let v = view(&c);
            if v != *r {
                fails.push((
                    format!("C23|from_str|wrong-parts|{}", r.form()),
                    format!("SchemaCoordinate::from_str({:?}) = {:?}, expected {:?}", s, c, r),
                ));
            }
            let printed = c.to_string();
            if printed != s {
                fails.push((format!("C23|display|{}", r.form()), format!("{:?} parsed and printed is {:?}", s, printed)));
            }
            match SchemaCoordinate::from_str(&printed) {
                Ok(c2) if c2 == c => {}
                other => fails.push((
                    format!("C23|reparse|{}", r.form()),
                    format!("{:?} prints as {:?}, which re-parses as {:?}", s, printed, other),
                )),
            }
        }
        (Ok(c), None) => fails.push((
            format!("C23|from_str|accepts|{}|{}", view(&c).form(), reject_class(s)),
            format!("SchemaCoordinate::from_str({:?}) = {:?}, but the string has none of the five coordinate forms", s, c),
        )),
        (Err(e), Some(r)) => fails.push((
            format!("C23|from_str|rejects|{}", r.form()),
            format!("SchemaCoordinate::from_str({:?}) fails ({}), expected {:?}", s, e, r),
        )),
        (Err(_), None) => {}
    }
    // per-kind FromStr: accepts exactly its own form
    macro_rules! kind {
        ($ty:ident, $label:expr, $pat:pat, $view:expr) => {{
            let want_this = matches!(&want, Some($pat));
            match $ty::from_str(s) {
                Ok(c) => {
                    if !want_this {
                        fails.push((
                            format!("C23|{}::from_str|accepts|{}", $label, reject_class(s)),
                            format!("{}::from_str({:?}) = {:?}, but the string is not of that form (reference: {:?})", $label, s, c, want),
                        ));
                    } else {
                        let f: fn(&$ty) -> RefCoord = $view;
                        if Some(f(&c)) != want {
                            fails.push((
                                format!("C23|{}::from_str|wrong-parts", $label),
                                format!("{}::from_str({:?}) = {:?}, expected {:?}", $label, s, c, want),
                            ));
                        }
                        if c.to_string() != s {
                            fails.push((format!("C23|{}|display", $label), format!("{:?} parsed and printed is {:?}", s, c.to_string())));
                        }
                    }
                }
                Err(e) => {
                    if want_this {
                        fails.push((
                            format!("C23|{}::from_str|rejects", $label),
                            format!("{}::from_str({:?}) fails ({}), expected {:?}", $label, s, e, want),
                        ));
                    }
                }
            }
        }};
    }
    kind!(TypeCoordinate, "TypeCoordinate", RefCoord::Type(_), |c| RefCoord::Type(c.ty.to_string()));
    kind!(TypeAttributeCoordinate, "TypeAttributeCoordinate", RefCoord::Attr(..), |c| RefCoord::Attr(
        c.ty.to_string(),
        c.attribute.to_string()
    ));
    kind!(FieldArgumentCoordinate, "FieldArgumentCoordinate", RefCoord::FieldArg(..), |c| RefCoord::FieldArg(
        c.ty.to_string(),
        c.field.to_string(),
        c.argument.to_string()
    ));
    kind!(DirectiveCoordinate, "DirectiveCoordinate", RefCoord::Dir(_), |c| RefCoord::Dir(c.directive.to_string()));
    kind!(DirectiveArgumentCoordinate, "DirectiveArgumentCoordinate", RefCoord::DirArg(..), |c| RefCoord::DirArg(
        c.directive.to_string(),
        c.argument.to_string()
    ));
}

fn has_punct(s: &str) -> bool {
    s.contains(['.', '(', ')', ':', '@'])
}

pub fn check_index(i: u64, ctx: &mut Ctx) -> Outcome {
    let b = block(ctx.tier);
    let total = total_strings(ctx.tier);
    let lo = i * b;
    let hi = (lo + b).min(total);
    let mut fails: Vec<(String, String)> = vec![];
    let mut accepted = 0;
    let mut punct = false;
    let mut first = String::new();
    for n in lo..hi {
        let s = nth_string(n, &ALPHABET);
        coord_checks(&s, &mut fails);
        if ref_parse(&s).is_some() {
            accepted += 1;
        }
        punct |= has_punct(&s);
        if n == lo {
            first = s;
        }
        ctx.sub_evals += 1;
    }
    if b == 1 {
        ctx.set_sample(format!("{:?}", first));
    } else {
        ctx.set_sample(format!("strings #{}..#{} starting at {:?}", lo, hi, first));
    }
    ctx.nontrivial = punct;
    ctx.class(if accepted > 0 { "strings:with-valid-coordinate" } else { "strings:all-invalid" });
    ctx.pick_failure(fails)
}

fn string_case(s: &str, ctx: &mut Ctx) -> Outcome {
    ctx.set_sample(format!("{:?}", s));
    let mut fails = vec![];
    coord_checks(s, &mut fails);
    ctx.nontrivial = has_punct(s);
    ctx.class(match ref_parse(s) {
        Some(r) => format!("random:{}", r.form()),
        None => format!("random:invalid:{}", reject_class(s)),
    });
    ctx.pick_failure(fails)
}

pub fn check_text(s: &str, ctx: &mut Ctx) -> Outcome {
    string_case(s, ctx)
}

const JUNK: &[char] = &[
    '.', '(', ')', ':', '@', ' ', '\t', '\n', '_', '1', 'a', 'é', 'ß', '中', '١', '\u{0}', '\u{FEFF}', '\u{200B}', '!', '$', '[', ']', ',', '-', '\\', '"', '#', '🚀',
];

fn valid_coord(c: &mut Choices) -> RefCoord {
    match c.choose(5) {
        0 => RefCoord::Type(valid_name(c)),
        1 => RefCoord::Attr(valid_name(c), valid_name(c)),
        2 => RefCoord::FieldArg(valid_name(c), valid_name(c), valid_name(c)),
        3 => RefCoord::Dir(valid_name(c)),
        _ => RefCoord::DirArg(valid_name(c), valid_name(c)),
    }
}

pub fn check_random(bytes: &[u8], ctx: &mut Ctx) -> Outcome {
    let mut c = Choices::new(bytes);
    let s: String = match c.weighted(&[30, 40, 20, 10]) {
        0 => valid_coord(&mut c).print(),
        1 => {
            // one or two character-level mutations of a valid coordinate
            let mut chars: Vec<char> = valid_coord(&mut c).print().chars().collect();
            let n = 1 + c.choose(2);
            for _ in 0..n {
                let at = c.choose(chars.len() + 1);
                match c.choose(4) {
                    0 if at < chars.len() => {
                        chars.remove(at);
                    }
                    1 if at < chars.len() => chars[at] = c.pick(JUNK),
                    2 if at + 1 < chars.len() => chars.swap(at, at + 1),
                    _ => chars.insert(at, c.pick(JUNK)),
                }
            }
            chars.into_iter().collect()
        }
        2 => {
            let n = c.range(0, 8);
            let mut s = String::new();
            for _ in 0..n {
                match c.weighted(&[35, 12, 10, 10, 10, 8, 5, 10]) {
                    0 => s.push_str(&valid_name(&mut c)),
                    1 => s.push('.'),
                    2 => s.push('('),
                    3 => s.push_str(":)"),
                    4 => s.push('@'),
                    5 => s.push(':'),
                    6 => s.push(')'),
                    _ => s.push(c.pick(JUNK)),
                }
            }
            s
        }
        _ => text::unicode(&mut c, 12, true),
    };
    string_case(&s, ctx)
}

// ------------------------------------------------------------------------------------------------
// lookup

#[derive(Debug, PartialEq)]
enum Elem {
    Type(TypeKind),
    Field { ty: String, args: Vec<String> },
    InputField { ty: String },
    EnumValue,
    Argument { ty: String },
    Directive { args: Vec<String> },
}

impl Elem {
    fn kind(&self) -> &'static str {
        match self {
            Elem::Type(_) => "type",
            Elem::Field { .. } => "field",
            Elem::InputField { .. } => "input-field",
            Elem::EnumValue => "enum-value",
            Elem::Argument { .. } => "argument",
            Elem::Directive { .. } => "directive",
        }
    }
}

/// What the reference schema has under the coordinate's names.
fn ref_lookup(rs: &RefSchema, r: &RefCoord) -> Option<Elem> {
    match r {
        RefCoord::Type(t) => rs.get(t).map(|d| Elem::Type(d.kind)),
        RefCoord::Attr(t, a) => {
            let d = rs.get(t)?;
            match d.kind {
                TypeKind::Object | TypeKind::Interface => d
                    .fields
                    .iter()
                    .find(|f| f.name == *a)
                    .map(|f| Elem::Field { ty: f.ty.print(), args: f.args.iter().map(|x| x.name.clone()).collect() }),
                TypeKind::InputObject => d.input_fields.iter().find(|f| f.name == *a).map(|f| Elem::InputField { ty: f.ty.print() }),
                TypeKind::Enum => d.values.iter().find(|v| v.name == *a).map(|_| Elem::EnumValue),
                TypeKind::Union | TypeKind::Scalar => None,
            }
        }
        RefCoord::FieldArg(t, f, a) => {
            let d = rs.get(t)?;
            if !matches!(d.kind, TypeKind::Object | TypeKind::Interface) {
                return None;
            }
            let field = d.fields.iter().find(|x| x.name == *f)?;
            field.args.iter().find(|x| x.name == *a).map(|x| Elem::Argument { ty: x.ty.print() })
        }
        RefCoord::Dir(d) => rs.directive(d).map(|dd| Elem::Directive { args: dd.args.iter().map(|x| x.name.clone()).collect() }),
        RefCoord::DirArg(d, a) => rs.directive(d)?.args.iter().find(|x| x.name == *a).map(|x| Elem::Argument { ty: x.ty.print() }),
    }
}

fn apollo_kind(t: &ExtendedType) -> TypeKind {
    match t {
        ExtendedType::Scalar(_) => TypeKind::Scalar,
        ExtendedType::Object(_) => TypeKind::Object,
        ExtendedType::Interface(_) => TypeKind::Interface,
        ExtendedType::Union(_) => TypeKind::Union,
        ExtendedType::Enum(_) => TypeKind::Enum,
        ExtendedType::InputObject(_) => TypeKind::InputObject,
    }
}

/// apollo's lookup result as (element, the element's own name)
fn apollo_elem(l: &SchemaCoordinateLookup<'_>) -> Option<(Elem, String)> {
    Some(match l {
        SchemaCoordinateLookup::Type(t) => (Elem::Type(apollo_kind(t)), t.name().to_string()),
        SchemaCoordinateLookup::Directive(d) => (
            Elem::Directive { args: d.arguments.iter().map(|a| a.name.to_string()).collect() },
            d.name.to_string(),
        ),
        SchemaCoordinateLookup::Field(f) => (
            Elem::Field { ty: f.ty.to_string(), args: f.arguments.iter().map(|a| a.name.to_string()).collect() },
            f.name.to_string(),
        ),
        SchemaCoordinateLookup::InputField(f) => (Elem::InputField { ty: f.ty.to_string() }, f.name.to_string()),
        SchemaCoordinateLookup::EnumValue(v) => (Elem::EnumValue, v.value.to_string()),
        SchemaCoordinateLookup::Argument(a) => (Elem::Argument { ty: a.ty.to_string() }, a.name.to_string()),
        _ => return None,
    })
}

fn own_name(r: &RefCoord) -> &str {
    match r {
        RefCoord::Type(t) => t,
        RefCoord::Attr(_, a) => a,
        RefCoord::FieldArg(_, _, a) => a,
        RefCoord::Dir(d) => d,
        RefCoord::DirArg(_, a) => a,
    }
}

fn lookup_one(schema: &Schema, rs: &RefSchema, r: &RefCoord, fails: &mut Vec<(String, String)>, classes: &mut BTreeSet<String>) {
    let text = r.print();
    let coord = match SchemaCoordinate::from_str(&text) {
        Ok(c) => c,
        Err(e) => {
            fails.push((format!("C23|from_str|rejects|{}", r.form()), format!("SchemaCoordinate::from_str({:?}) fails: {}", text, e)));
            return;
        }
    };
    let want = ref_lookup(rs, r);
    let got = coord.lookup(schema);
    match (&got, &want) {
        (Ok(l), Some(w)) => match apollo_elem(l) {
            Some((e, name)) if e == *w && name == own_name(r) => {
                classes.insert(format!("lookup:hit:{}", w.kind()));
            }
            other => fails.push((
                format!("C23|lookup|wrong-element|{}", r.form()),
                format!("lookup of {:?} returned {:?}, the schema has {:?} named {:?} there", text, other, w, own_name(r)),
            )),
        },
        (Ok(l), None) => fails.push((
            format!("C23|lookup|phantom|{}", r.form()),
            format!("lookup of {:?} returned {:?}, but the schema has no such element", text, apollo_elem(l)),
        )),
        (Err(e), Some(w)) => fails.push((
            format!("C23|lookup|missing|{}|{}", r.form(), w.kind()),
            format!("lookup of {:?} fails ({}), but the schema has {:?}", text, e, w),
        )),
        (Err(e), None) => {
            let variant = match e {
                SchemaLookupError::MissingType(_) => "MissingType",
                SchemaLookupError::MissingAttribute(_) => "MissingAttribute",
                SchemaLookupError::InvalidArgumentAttribute(_) => "InvalidArgumentAttribute",
                SchemaLookupError::MissingArgument(_) => "MissingArgument",
                SchemaLookupError::InvalidType(_) => "InvalidType",
                _ => "other",
            };
            classes.insert(format!("lookup:miss:{}:{}", r.form(), variant));
        }
    }
    // the per-kind lookups agree with the general one
    match &coord {
        SchemaCoordinate::Type(c) => {
            if c.lookup(schema).is_ok() != want.is_some() {
                fails.push(("C23|lookup|per-kind|TypeCoordinate".into(), format!("TypeCoordinate::lookup({:?}) disagrees with the schema", text)));
            }
        }
        SchemaCoordinate::TypeAttribute(c) => {
            let is = |k: &str| want.as_ref().map(|w| w.kind() == k).unwrap_or(false);
            let triples = [
                ("lookup_field", c.lookup_field(schema).is_ok(), is("field")),
                ("lookup_input_field", c.lookup_input_field(schema).is_ok(), is("input-field")),
                ("lookup_enum_value", c.lookup_enum_value(schema).is_ok(), is("enum-value")),
                ("lookup", c.lookup(schema).is_ok(), want.is_some()),
            ];
            for (m, got, exp) in triples {
                if got != exp {
                    fails.push((
                        format!("C23|lookup|per-kind|TypeAttributeCoordinate::{}", m),
                        format!("TypeAttributeCoordinate::{}({:?}).is_ok() = {}, expected {} (schema has {:?})", m, text, got, exp, want),
                    ));
                }
            }
        }
        SchemaCoordinate::FieldArgument(c) => {
            if c.lookup(schema).is_ok() != want.is_some() {
                fails.push(("C23|lookup|per-kind|FieldArgumentCoordinate".into(), format!("FieldArgumentCoordinate::lookup({:?}) disagrees with the schema", text)));
            }
        }
        SchemaCoordinate::Directive(c) => {
            if c.lookup(schema).is_ok() != want.is_some() {
                fails.push(("C23|lookup|per-kind|DirectiveCoordinate".into(), format!("DirectiveCoordinate::lookup({:?}) disagrees with the schema", text)));
            }
        }
        SchemaCoordinate::DirectiveArgument(c) => {
            if c.lookup(schema).is_ok() != want.is_some() {
                fails.push(("C23|lookup|per-kind|DirectiveArgumentCoordinate".into(), format!("DirectiveArgumentCoordinate::lookup({:?}) disagrees with the schema", text)));
            }
        }
    }
}

pub fn check_lookup(bytes: &[u8], ctx: &mut Ctx) -> Outcome {
    let mut c = Choices::new(bytes);
    let mut doc = gen::schema::schema(&mut c, &gen::schema::Opts::default());
    if c.coin() {
        gen::schema::split_extensions(&mut c, &mut doc);
    }
    let with_builtin_types = c.bool(64);
    let text = print_document(&doc);
    ctx.set_sample(text.clone());
    let schema = match Schema::parse_and_validate(text, "schema.graphql") {
        Ok(s) => s,
        Err(_) => return ctx.skip("apollo rejects the generated schema"),
    };
    let rs = RefSchema::from_document(&doc);

    // name universes
    let mut attrs: BTreeSet<String> = BTreeSet::new();
    let mut args: BTreeSet<String> = BTreeSet::new();
    for t in &rs.types {
        if rs.is_builtin_type(&t.name) && !with_builtin_types {
            continue;
        }
        for f in &t.fields {
            attrs.insert(f.name.clone());
            args.extend(f.args.iter().map(|a| a.name.clone()));
        }
        attrs.extend(t.input_fields.iter().map(|f| f.name.clone()));
        attrs.extend(t.values.iter().map(|v| v.name.clone()));
    }
    for d in rs.directives.values() {
        args.extend(d.args.iter().map(|a| a.name.clone()));
    }
    attrs.insert("nope9".into());
    args.insert("nope9".into());
    // the introspection meta-fields are not elements of any type: `Query.__typename`, `Query.__schema`,
    // `Query.__type(name:)` must not resolve (the reference schema has no such fields)
    for m in ["__typename", "__schema", "__type"] {
        attrs.insert(m.into());
    }
    args.insert("name".into());
    // The five built-in scalars are left out: a `Valid<Schema>` documents that it drops the ones no
    // field / argument / input field refers to, so whether `Int` resolves depends on usage.
    let mut type_names: Vec<String> = rs
        .types
        .iter()
        .filter(|t| !BUILTIN_SCALARS.contains(&t.name.as_str()) && (with_builtin_types || !rs.is_builtin_type(&t.name)))
        .map(|t| t.name.clone())
        .collect();
    type_names.push("Nope9".into());
    let mut dir_names: Vec<String> = rs.directives.keys().cloned().collect();
    dir_names.push("nope9".into());

    let mut fails: Vec<(String, String)> = vec![];
    let mut classes: BTreeSet<String> = BTreeSet::new();
    let mut n = 0u64;
    for t in &type_names {
        lookup_one(&schema, &rs, &RefCoord::Type(t.clone()), &mut fails, &mut classes);
        n += 1;
        let kind = rs.kind(t);
        let mut first_attr = true;
        for a in &attrs {
            let r = RefCoord::Attr(t.clone(), a.clone());
            lookup_one(&schema, &rs, &r, &mut fails, &mut classes);
            n += 1;
            let is_field = matches!(ref_lookup(&rs, &r), Some(Elem::Field { .. }));
            // arguments: the whole argument-name universe on real fields; one probe on everything else
            // (enum values, input fields, union/scalar attributes, missing attributes, missing types)
            if is_field || a.starts_with("__") {
                for g in &args {
                    lookup_one(&schema, &rs, &RefCoord::FieldArg(t.clone(), a.clone(), g.clone()), &mut fails, &mut classes);
                    n += 1;
                }
            } else if ref_lookup(&rs, &r).is_some() || first_attr || kind.is_none() {
                let g = args.iter().next().cloned().unwrap_or_else(|| "nope9".into());
                lookup_one(&schema, &rs, &RefCoord::FieldArg(t.clone(), a.clone(), g), &mut fails, &mut classes);
                n += 1;
            }
            first_attr = false;
        }
    }
    for d in &dir_names {
        lookup_one(&schema, &rs, &RefCoord::Dir(d.clone()), &mut fails, &mut classes);
        n += 1;
        for g in &args {
            lookup_one(&schema, &rs, &RefCoord::DirArg(d.clone(), g.clone()), &mut fails, &mut classes);
            n += 1;
        }
    }
    ctx.sub_evals += n;
    ctx.nontrivial = true;
    for cl in classes {
        ctx.class(cl);
    }
    ctx.pick_failure(fails)
}

#[cfg(test)]
mod tests {
    use super::*;
    #[test]
    fn reference_forms() {
        assert_eq!(ref_parse("A"), Some(RefCoord::Type("A".into())));
        assert_eq!(ref_parse("A.b"), Some(RefCoord::Attr("A".into(), "b".into())));
        assert_eq!(ref_parse("A.b(c:)"), Some(RefCoord::FieldArg("A".into(), "b".into(), "c".into())));
        assert_eq!(ref_parse("@d"), Some(RefCoord::Dir("d".into())));
        assert_eq!(ref_parse("@d(_1:)"), Some(RefCoord::DirArg("d".into(), "_1".into())));
        for bad in [
            "", "@", ".", "A.", ".b", "A.b.", "A..b", "A.b(c)", "A.b(:)", "A.b(c:) ", " A", "A .b", "A(b:)", "@d.e", "@d(e:)x", "@@d", "1a", "A.1", "A.b(1:)",
            "A.b(c:))", "A.b((c:)", "A.b(c::)", "é", "A.b(c: )",
        ] {
            assert_eq!(ref_parse(bad), None, "{bad:?}");
        }
    }
}
