//! C26 Execution follows the GraphQL execution algorithm.
//!
//! Case = valid (schema, operation, variables) from `gen::exec_ops` + a resolver world from
//! `gen::worlds` (decoded while the reference executor runs without cancellation, so every
//! position any conforming execution may resolve has an outcome). apollo's
//! `Execution::execute_sync` over `ObjectValue`s serving that world is compared with
//! `refmodel::executor`.
//!
//! What is compared, and why in this form:
//!   * `data`: exactly, including the order of response keys (the response map is ordered, 6.3).
//!   * `errors`: by PATH only (messages and locations are not compared). The specification lets an
//!     implementation cancel sibling fields once a field error propagates through their selection
//!     set (6.4.4), and fixes no order for the `errors` list, so the list is not compared with one
//!     reference list. Instead: (a) every reported path is the path of a field error that the
//!     uncancelled reference execution raises, each at most once; (b) for every null that an error
//!     put into the final `data` (or for `data: null`), at least one of the errors that land there
//!     is reported. For the record the class histogram says whether the list also equals, in
//!     order, the list of a sequential executor that cancels at the first propagating error
//!     (`errors:sequential-order`), which is what apollo does today.
//!   * directly on apollo's response: no null where the reference says the position is Non-Null;
//!     every error path addresses a null or absent position of apollo's own `data`;
//!     `data` is null exactly when an error landing at the root is reported.
//!   * resolver calls: only at positions of the world, each at most once, for the field and
//!     object type the reference resolves there, with the reference's coerced argument values
//!     (`refmodel::coerce::coerce_argument_values`, compared type-directed).

use crate::apollo::exec::{self, to_apollo, Event, Observed};
use crate::choices::Choices;
use crate::gen::exec_ops::{self, Case, SEP};
use crate::gen::worlds::{TableResolvers, World, WorldGen};
use crate::refmodel::ast::*;
use crate::refmodel::coerce::{same_coerced, Coercer, Fail, Json, JsonMap};
use crate::refmodel::executor::{self as rx, path_string, Completed, Landing, Node, Path, Response, Seg};
use crate::refmodel::parser::parse_document;
use crate::refmodel::schema::RefSchema;
use crate::runner::{catch, normalise_panic, Ctx, Outcome, Prop, Tier};
use apollo_compiler::response::JsonMap as AJsonMap;
use std::collections::BTreeSet;

pub fn prop() -> Prop {
    Prop::new(
        "C26",
        "Execution follows the GraphQL execution algorithm",
        "Cases: a valid generated schema enriched with list fields of every nullability pattern up to three levels; a valid \
         query or mutation (nested objects, lists, interfaces / unions with inline and named fragments and type \
         conditions, aliases, duplicate response keys merged across fragments, @skip / @include with literals and \
         variables, __typename, arguments from literals and variables incl. nullable variables at non-null positions, \
         __schema / __type with introspection disabled); fault-free variables; a resolver world giving every resolvable \
         position a correct value, null, a resolver error, a wrongly-typed leaf of each JSON kind, an out-of-range Int, \
         an object of a wrong / unknown / non-object type, a resolved-value kind that does not fit the type, or a list \
         (nested lists) with per-item outcomes incl. an iterator error. Oracle: refmodel::executor (October 2021 \
         section 6 + apollo's documented choices). Non-trivial: at least one field error at a Non-Null position or \
         inside a list; distinct by operation + variables + schema + world.",
    )
    .random("execute", check, |t| dev_scale(if t == Tier::Quick { 300_000 } else { 6_000_000 }), |t| if t == Tier::Quick { 900 } else { 1500 })
    .text(check_text)
    .assumptions(&[
        "errors are compared by path; the list is checked against the set of field errors of an uncancelled reference execution (subset, no duplicates, every error-made null explained) because the specification allows cancelling siblings after a propagating error and fixes no order of `errors`",
        "apollo's documented choices are part of the oracle: Int only from integer JSON numbers within 32 bits, Float only from float-typed JSON numbers, ID from strings or integers, enums as strings of defined values, custom scalars pass through; Leaf / Object / List must fit the kind of the type; an error yielded by a list iterator nulls the list; __schema / __type raise a field error while introspection is disabled",
        "not generated (unspecified): null or absent values for `if:` of @skip/@include; ResolvedValue::SkipForPartialExecution; integers above i64::MAX for ID; variables inside literals for custom scalars; subscriptions",
        "variables are fault-free (C28 covers coercion failures); cases whose variables the reference leaves unspecified, or that apollo's validation rejects, are skipped and counted",
    ])
}

/// Development aid: `VERIF_DEV_SCALE=<percent>` scales the number of cases (unset = 100).
pub fn dev_scale(n: u64) -> u64 {
    match std::env::var("VERIF_DEV_SCALE").ok().and_then(|s| s.parse::<u64>().ok()) {
        Some(p) => (n * p / 100).max(1),
        None => n,
    }
}

pub struct Built {
    pub case: Case,
    pub world: World,
    pub world_labels: Vec<&'static str>,
    pub coerced: JsonMap,
    pub full: Response,
    pub seq: Response,
}

pub enum BuildErr {
    Skip(&'static str),
}

/// Reference side of a case: coerced variables, world, both reference runs.
pub fn build_from(case: Case, world_bytes: &[u8], fixed_world: Option<World>, tier: Tier) -> Result<Built, BuildErr> {
    let coerced = match Coercer::new(&case.schema).coerce_variable_values(&case.var_defs, &case.variables) {
        Ok(v) => v,
        Err(Fail::Unspecified(_)) => return Err(BuildErr::Skip("variables-unspecified")),
        Err(Fail::Err(_)) => return Err(BuildErr::Skip("variables-rejected-by-reference")),
    };
    let op = case.operation().clone();
    let (world, world_labels, full) = match fixed_world {
        Some(w) => {
            let mut t = TableResolvers { world: &w, missing: vec![] };
            let full = rx::execute(&case.schema, &case.op_doc, &op, &coerced, &mut t, false);
            if !t.missing.is_empty() {
                return Err(BuildErr::Skip("world-misses-a-position"));
            }
            (w, vec![], full)
        }
        None => {
            let mut c = Choices::new(world_bytes);
            let mut g = WorldGen::new(&mut c, &case.schema);
            if tier == Tier::Thorough {
                g.max_positions = 200;
                g.max_len = 4;
            }
            let full = rx::execute(&case.schema, &case.op_doc, &op, &coerced, &mut g, false);
            let labels: Vec<&'static str> = g.labels.iter().cloned().collect();
            (g.world, labels, full)
        }
    };
    if !full.unspecified.is_empty() {
        return Err(BuildErr::Skip("reference-unspecified"));
    }
    let mut t = TableResolvers { world: &world, missing: vec![] };
    let seq = rx::execute(&case.schema, &case.op_doc, &op, &coerced, &mut t, true);
    // cancellation never changes `data` (harness self-check)
    assert_eq!(rx::data_json(&full.data), rx::data_json(&seq.data), "reference modes disagree on data");
    Ok(Built { case, world, world_labels, coerced, full, seq })
}

pub fn opts(tier: Tier) -> exec_ops::Opts {
    if tier == Tier::Thorough {
        exec_ops::Opts::default().thorough()
    } else {
        exec_ops::Opts::default()
    }
}

pub fn build(bytes: &[u8], tier: Tier) -> Result<Built, BuildErr> {
    let (cb, wb) = exec_ops::split_world_bytes(bytes);
    let case = exec_ops::case(&cb, &opts(tier));
    build_from(case, &wb, None, tier)
}

pub fn render(b: &Built) -> String {
    format!("{}{}{}", b.case.render(), SEP, b.world.render())
}

pub fn check(bytes: &[u8], ctx: &mut Ctx) -> Outcome {
    match build(bytes, ctx.tier) {
        Err(BuildErr::Skip(why)) => ctx.skip(why),
        Ok(b) => {
            ctx.set_sample(render(&b));
            evaluate(&b, ctx)
        }
    }
}

/// `<operation>\n#---\n<variables JSON>\n#---\n<schema SDL>\n#---\n<world lines>`; world lines are
/// `$.path (Type.field) = OUTCOME` as printed by `World::render`.
pub fn check_text(text: &str, ctx: &mut Ctx) -> Outcome {
    let parts: Vec<&str> = text.splitn(4, SEP).collect();
    if parts.len() != 4 {
        return Outcome::fail("C26|bad-repro", "expected <operation>#---<variables>#---<schema>#---<world>");
    }
    let Ok(schema_doc) = parse_document(parts[2]) else { return Outcome::fail("C26|bad-repro", "schema does not parse") };
    let Ok(op_doc) = parse_document(parts[0]) else { return Outcome::fail("C26|bad-repro", "operation does not parse") };
    let Ok(Json::Object(variables)) = serde_json::from_str::<Json>(parts[1]) else { return Outcome::fail("C26|bad-repro", "variables are not a JSON object") };
    let Some(world) = parse_world(parts[3]) else { return Outcome::fail("C26|bad-repro", "world does not parse") };
    let schema = RefSchema::from_document(&schema_doc);
    let var_defs = op_doc.defs.iter().find_map(|d| if let Definition::Operation(o) = d { Some(o.vars.clone()) } else { None }).unwrap_or_default();
    let case = Case { sdl: parts[2].to_string(), op_text: parts[0].to_string(), schema_doc, schema, op_doc, var_defs, variables, features: vec![] };
    ctx.set_sample(text.to_string());
    match build_from(case, &[], Some(world), ctx.tier) {
        Err(BuildErr::Skip(why)) => Outcome::fail("C26|bad-repro", why),
        Ok(b) => evaluate(&b, ctx),
    }
}

fn parse_outcome(s: &str) -> Option<(rx::Outcome, &str)> {
    let s = s.trim_start();
    if let Some(rest) = s.strip_prefix("ERROR") {
        return Some((rx::Outcome::Error, rest));
    }
    if let Some(rest) = s.strip_prefix("LIST[") {
        let mut items = vec![];
        let mut rest = rest.trim_start();
        if let Some(r) = rest.strip_prefix(']') {
            return Some((rx::Outcome::List(items), r));
        }
        loop {
            let (o, r) = parse_outcome(rest)?;
            items.push(o);
            let r = r.trim_start();
            if let Some(r) = r.strip_prefix(',') {
                rest = r;
            } else if let Some(r) = r.strip_prefix(']') {
                return Some((rx::Outcome::List(items), r));
            } else {
                return None;
            }
        }
    }
    if let Some(rest) = s.strip_prefix('<') {
        let end = rest.find('>')?;
        return Some((rx::Outcome::Object(rest[..end].to_string()), &rest[end + 1..]));
    }
    // a JSON value: take the shortest prefix that parses and is followed by `,`, `]` or the end
    let mut de = serde_json::Deserializer::from_str(s).into_iter::<Json>();
    let v = de.next()?.ok()?;
    let used = de.byte_offset();
    Some((rx::Outcome::Leaf(v), &s[used..]))
}

fn parse_world(text: &str) -> Option<World> {
    let mut w = World::default();
    for line in text.lines() {
        let line = line.trim();
        if line.is_empty() {
            continue;
        }
        let (path, rest) = line.split_once(" (")?;
        let (tf, rest) = rest.split_once(") = ")?;
        let (t, f) = tf.split_once('.')?;
        let (o, tail) = parse_outcome(rest)?;
        if !tail.trim().is_empty() {
            return None;
        }
        w.table.insert(path.to_string(), crate::gen::worlds::Entry { object_type: t.to_string(), field: f.to_string(), outcome: o });
    }
    Some(w)
}

// ------------------------------------------------------------------------------------------------
// apollo side

pub struct Compiled {
    pub schema: apollo_compiler::validation::Valid<apollo_compiler::Schema>,
    pub doc: apollo_compiler::validation::Valid<apollo_compiler::ExecutableDocument>,
    pub variables: AJsonMap,
    pub root: String,
}

pub fn compile(b: &Built, ctx: &mut Ctx) -> Result<Compiled, &'static str> {
    let schema = match apollo_compiler::Schema::parse_and_validate(&b.case.sdl, "schema.graphql") {
        Ok(s) => s,
        Err(e) => {
            if ctx.strict {
                eprintln!("apollo rejects the schema:\n{}", e.errors);
            }
            return Err("apollo-validation-rejects-schema");
        }
    };
    let doc = match apollo_compiler::ExecutableDocument::parse_and_validate(&schema, &b.case.op_text, "op.graphql") {
        Ok(d) => d,
        Err(e) => {
            if ctx.strict {
                eprintln!("apollo rejects the operation:\n{}", e.errors);
            }
            return Err("apollo-validation-rejects-operation");
        }
    };
    let variables: AJsonMap = b.case.variables.iter().map(|(k, v)| (k.as_str().into(), to_apollo(v))).collect();
    let op = b.case.operation();
    let root = b.case.schema.root(op.op).unwrap_or("Query").to_string();
    Ok(Compiled { schema, doc, variables, root })
}

// ------------------------------------------------------------------------------------------------
// Oracle

fn bucket(n: usize) -> &'static str {
    match n {
        0 => "0",
        1 => "1",
        2..=3 => "2-3",
        4..=7 => "4-7",
        _ => "8+",
    }
}

pub fn classify(b: &Built, ctx: &mut Ctx) {
    for f in &b.case.features {
        ctx.class(format!("op:{}", f));
    }
    for l in &b.world_labels {
        ctx.class(l.to_string());
    }
    ctx.class(format!("ref:errors={}", bucket(b.seq.errors.len())));
    ctx.class(format!("ref:calls={}", bucket(b.full.calls.len())));
    if b.full.data.is_none() {
        ctx.class("ref:data-null");
    }
    if b.full.errors.len() != b.seq.errors.len() {
        ctx.class("ref:cancellation-hides-errors");
    }
    let propagated = b.full.errors.iter().any(|e| e.landing != Landing::At(e.path.clone()));
    let in_list = b.full.errors.iter().any(|e| e.path.iter().any(|s| matches!(s, Seg::Index(_))));
    if propagated {
        ctx.class("ref:error-at-non-null");
    }
    if in_list {
        ctx.class("ref:error-in-list");
    }
    if b.full.errors.iter().any(|e| e.kind == "argument-coercion") {
        ctx.class("ref:argument-error");
    }
    ctx.nontrivial = propagated || in_list;
}

/// First difference between two JSON values (objects compared by key, order ignored).
fn first_diff(want: &Json, got: &Json, path: &mut Path) -> Option<(String, Path)> {
    match (want, got) {
        (Json::Null, Json::Null) => None,
        (Json::Null, _) => Some(("value-where-null-expected".into(), path.clone())),
        (_, Json::Null) => Some(("null-where-value-expected".into(), path.clone())),
        (Json::Object(w), Json::Object(g)) => {
            for (k, wv) in w {
                path.push(Seg::Key(k.clone()));
                let r = match g.get(k) {
                    None => Some(("missing-key".to_string(), path.clone())),
                    Some(gv) => first_diff(wv, gv, path),
                };
                path.pop();
                if r.is_some() {
                    return r;
                }
            }
            for k in g.keys() {
                if !w.contains_key(k) {
                    path.push(Seg::Key(k.clone()));
                    let p = path.clone();
                    path.pop();
                    return Some(("extra-key".into(), p));
                }
            }
            None
        }
        (Json::Array(w), Json::Array(g)) => {
            if w.len() != g.len() {
                return Some(("list-length".into(), path.clone()));
            }
            for (i, (wv, gv)) in w.iter().zip(g).enumerate() {
                path.push(Seg::Index(i));
                let r = first_diff(wv, gv, path);
                path.pop();
                if r.is_some() {
                    return r;
                }
            }
            None
        }
        (w, g) => {
            if w == g {
                None
            } else {
                Some(("value".into(), path.clone()))
            }
        }
    }
}

/// Nulls in apollo's data at positions the reference types as Non-Null (walks both as far as
/// their shapes coincide).
fn apollo_nulls_at_non_null(node: &Node, got: &Json, path: &mut Path, out: &mut Vec<Path>) {
    if got.is_null() {
        if node.non_null {
            out.push(path.clone());
        }
        return;
    }
    match (&node.value, got) {
        (Completed::List(l), Json::Array(g)) => {
            for (i, (n, v)) in l.iter().zip(g).enumerate() {
                path.push(Seg::Index(i));
                apollo_nulls_at_non_null(n, v, path, out);
                path.pop();
            }
        }
        (Completed::Object(o), Json::Object(g)) => {
            for (k, n) in o {
                if let Some(v) = g.get(k) {
                    path.push(Seg::Key(k.clone()));
                    apollo_nulls_at_non_null(n, v, path, out);
                    path.pop();
                }
            }
        }
        _ => {}
    }
}

/// Does `path` address a null or absent position of `data`?
fn addresses_null_or_absent(data: &Json, path: &[Seg]) -> bool {
    let mut cur = data;
    for seg in path {
        if cur.is_null() {
            return true;
        }
        cur = match (seg, cur) {
            (Seg::Key(k), Json::Object(o)) => match o.get(k) {
                Some(v) => v,
                None => return true,
            },
            (Seg::Index(i), Json::Array(a)) => match a.get(*i) {
                Some(v) => v,
                None => return true,
            },
            // the path does not fit the shape of the data at all
            _ => return false,
        };
    }
    cur.is_null()
}

fn paths(ps: &[Path]) -> String {
    format!("[{}]", ps.iter().map(|p| path_string(p)).collect::<Vec<_>>().join(", "))
}

/// Compare an observed apollo response with the reference runs of `b`. `tag` prefixes signatures.
pub fn compare(tag: &str, b: &Built, obs: &Observed, ctx: &mut Ctx) -> Vec<(String, String)> {
    let mut fails: Vec<(String, String)> = vec![];
    let want = rx::data_json(&b.full.data);
    let full_paths: Vec<Path> = b.full.errors.iter().map(|e| e.path.clone()).collect();
    let seq_paths: Vec<Path> = b.seq.errors.iter().map(|e| e.path.clone()).collect();
    let summary = || {
        format!(
            "reference data {} errors(sequential) {} errors(uncancelled) {}; apollo data {} errors {} {:?}",
            want,
            paths(&seq_paths),
            paths(&full_paths),
            obs.data,
            paths(&obs.error_paths),
            obs.error_messages
        )
    };

    for p in &obs.problems {
        fails.push((format!("{}|resolver-call|unexpected", tag), format!("{}; {}", p, summary())));
    }

    // direct: no null at a Non-Null position
    if let (Some(root), Json::Object(g)) = (&b.full.data, &obs.data) {
        let mut out = vec![];
        for (k, n) in root {
            if let Some(v) = g.get(k) {
                let mut p = vec![Seg::Key(k.clone())];
                apollo_nulls_at_non_null(n, v, &mut p, &mut out);
            }
        }
        if !out.is_empty() {
            fails.push((format!("{}|invariant|null-at-non-null", tag), format!("null at Non-Null position(s) {}; {}", paths(&out), summary())));
        }
    }

    // data
    if want != obs.data {
        let (kind, at) = first_diff(&want, &obs.data, &mut vec![]).unwrap_or(("value".into(), vec![]));
        let kind = if at.is_empty() { format!("root-{}", kind) } else { kind };
        fails.push((format!("{}|data|{}", tag, kind), format!("first difference at {}; {}", path_string(&at), summary())));
    } else if want.to_string() != obs.data.to_string() {
        fails.push((format!("{}|data|key-order", tag), summary()));
    }

    // errors: every path is one of the uncancelled reference's, at most once
    let mut seen: BTreeSet<&Path> = BTreeSet::new();
    for p in &obs.error_paths {
        if p.is_empty() {
            fails.push((format!("{}|errors|no-path", tag), summary()));
        } else if !full_paths.contains(p) {
            let stripped = |q: &Path| q.iter().filter(|s| matches!(s, Seg::Key(_))).cloned().collect::<Vec<_>>();
            let kind = if full_paths.iter().any(|q| stripped(q) == stripped(p)) { "unexpected-path.list-index" } else { "unexpected-path" };
            fails.push((format!("{}|errors|{}", tag, kind), format!("error path {} is not the position of a field error; {}", path_string(p), summary())));
        } else if !seen.insert(p) {
            fails.push((format!("{}|errors|duplicate-path", tag), format!("two errors for {}; {}", path_string(p), summary())));
        }
    }
    // every null made by an error is explained by a reported error landing there
    let mut landings: Vec<&Landing> = vec![];
    for e in &b.full.errors {
        if rx::landing_visible(&b.full.data, e) && !landings.contains(&&e.landing) {
            landings.push(&e.landing);
        }
    }
    for l in landings {
        let explained = b.full.errors.iter().any(|e| e.landing == *l && obs.error_paths.contains(&e.path));
        if !explained {
            let at = match l {
                Landing::At(p) => path_string(p),
                _ => "the root (data: null)".to_string(),
            };
            fails.push((format!("{}|errors|missing-for-null", tag), format!("no error reported for the null at {}; {}", at, summary())));
        }
    }
    // direct: every error path addresses a null or absent position of apollo's own data
    for p in &obs.error_paths {
        if !p.is_empty() && !addresses_null_or_absent(&obs.data, p) {
            fails.push((format!("{}|invariant|error-path-addresses-value", tag), format!("{} holds a value; {}", path_string(p), summary())));
        }
    }
    // direct: data null <=> an error that propagates to the root is reported
    let root_error = b.full.errors.iter().any(|e| e.landing == Landing::Root && obs.error_paths.contains(&e.path));
    if obs.data.is_null() != root_error {
        fails.push((format!("{}|invariant|data-null-iff-root-error", tag), summary()));
    }
    ctx.class(if obs.error_paths == seq_paths { "errors:sequential-order" } else { "errors:other-order" });

    // resolver calls
    let mut called: BTreeSet<&Path> = BTreeSet::new();
    for e in &obs.events {
        let Event::Call(c) = e else { continue };
        if !called.insert(&c.path) {
            fails.push((format!("{}|resolver-call|duplicate", tag), format!("{} resolved twice; {}", path_string(&c.path), summary())));
        }
        let Some(r) = b.full.calls.iter().find(|r| r.path == c.path) else { continue };
        if r.object_type != c.object_type || r.field != c.field {
            continue; // reported through `problems`
        }
        let Some(def) = b.case.schema.field(&r.object_type, &r.field) else { continue };
        for a in &def.args {
            match (r.args.get(&a.name), c.args.get(&a.name)) {
                (None, None) => {}
                (Some(x), None) => fails.push((
                    format!("{}|args|missing", tag),
                    format!("{}.{}({}:) at {}: reference {} apollo passes no value; args {} vs {}", r.object_type, r.field, a.name, path_string(&c.path), x, Json::Object(r.args.clone()), Json::Object(c.args.clone())),
                )),
                (None, Some(y)) => fails.push((
                    format!("{}|args|extra", tag),
                    format!("{}.{}({}:) at {}: reference passes no value, apollo {}; op {}", r.object_type, r.field, a.name, path_string(&c.path), y, b.case.op_text),
                )),
                (Some(x), Some(y)) => {
                    if let Err(d) = same_coerced(&b.case.schema, &a.ty, x, y, &a.name) {
                        let from_default = !arg_given(b, &c.path, &a.name);
                        fails.push((
                            format!("{}|args|{}{}", tag, if from_default { "default|" } else { "" }, d.kind),
                            format!("{}.{}({}: {}) at {}: {} at {}: reference {} apollo {}", r.object_type, r.field, a.name, a.ty.print(), path_string(&c.path), d.kind, d.path, x, y),
                        ));
                    }
                }
            }
        }
        for k in c.args.keys() {
            if !def.args.iter().any(|a| a.name == *k) {
                fails.push((format!("{}|args|undefined", tag), format!("argument {} passed to {}.{}", k, r.object_type, r.field)));
            }
        }
    }
    fails
}

/// Is argument `name` written in some field selection whose response key ends `path`? (root-cause
/// naming only: tells a coerced default from a coerced given value)
fn arg_given(b: &Built, path: &Path, name: &str) -> bool {
    fn walk(sels: &[Selection], doc: &Document, key: &str, name: &str, depth: usize) -> bool {
        if depth > 12 {
            return false;
        }
        sels.iter().any(|s| match s {
            Selection::Field(f) => (f.response_key() == key && f.args.iter().any(|(n, _)| n == name)) || walk(&f.selection_set, doc, key, name, depth + 1),
            Selection::Inline(i) => walk(&i.selection_set, doc, key, name, depth + 1),
            Selection::Spread(s) => doc.defs.iter().any(|d| matches!(d, Definition::Fragment(fr) if fr.name == s.name && walk(&fr.selection_set, doc, key, name, depth + 1))),
        })
    }
    let Some(Seg::Key(key)) = path.iter().rev().find(|s| matches!(s, Seg::Key(_))) else { return false };
    walk(&b.case.operation().selection_set, &b.case.op_doc, key, name, 0)
}

pub fn evaluate(b: &Built, ctx: &mut Ctx) -> Outcome {
    classify(b, ctx);
    let c = match compile(b, ctx) {
        Ok(c) => c,
        Err(why) => return ctx.skip(why),
    };
    let obs = match catch(|| exec::execute_sync(&c.schema, &c.doc, &c.variables, &b.world, &c.root)) {
        Ok(Ok(o)) => o,
        Ok(Err(msg)) => {
            return Outcome::fail("C26|request-error", format!("the reference coerces the variables to {}, apollo raises a request error: {}", Json::Object(b.coerced.clone()), msg));
        }
        Err((msg, loc)) => return Outcome::fail(format!("C26|panic|execute_sync|{}", normalise_panic(&msg, &loc)), format!("panic: {} at {}", msg, loc)),
    };
    // the reference's own result is well-formed
    debug_assert!(rx::nulls_at_non_null(&b.full.data).is_empty());
    let fails = compare("C26", b, &obs, ctx);
    ctx.pick_failure(fails)
}

#[cfg(test)]
mod tests {
    use super::*;

    /// Generated operations are accepted by apollo's validation (validity by construction is
    /// calibrated, not assumed), worlds survive render -> parse, and the text replay of a rendered
    /// case gives the same verdict as the byte case.
    #[test]
    fn generated_cases_are_valid_and_replayable() {
        let mut rejected = 0;
        let mut built = 0;
        for i in 0..1500u64 {
            let bytes = crate::runner::gen_case(7, "C26", 0, i, 900);
            let Ok(b) = build(&bytes, Tier::Quick) else { continue };
            built += 1;
            let mut ctx = Ctx::new(Tier::Quick, false);
            if compile(&b, &mut ctx).is_err() {
                rejected += 1;
                eprintln!("REJECTED:\n{}", b.case.render());
            }
            let w = parse_world(&b.world.render()).expect("world parses");
            assert_eq!(w.render(), b.world.render());
            let mut c1 = Ctx::new(Tier::Quick, false);
            let mut c2 = Ctx::new(Tier::Quick, false);
            let r1 = matches!(evaluate(&b, &mut c1), Outcome::Pass);
            let r2 = matches!(check_text(&render(&b), &mut c2), Outcome::Pass);
            assert_eq!(r1, r2, "{}", render(&b));
        }
        assert!(built > 1400, "built {built}");
        assert_eq!(rejected, 0);
    }

    /// Development aid: `cargo test --release c26::tests::explore -- --ignored --nocapture`
    #[test]
    #[ignore]
    fn explore() {
        let n: u64 = std::env::var("N").ok().and_then(|s| s.parse().ok()).unwrap_or(3000);
        let from: u64 = std::env::var("FROM").ok().and_then(|s| s.parse().ok()).unwrap_or(0);
        let mut slow = 0;
        let mut fails: std::collections::BTreeMap<String, (u64, String)> = Default::default();
        let mut skips: std::collections::BTreeMap<String, u64> = Default::default();
        let t0 = std::time::Instant::now();
        for i in from..from + n {
            let bytes = crate::runner::gen_case(20260921, "C26", 0, i, 900);
            let t = std::time::Instant::now();
            let mut ctx = Ctx::new(Tier::Quick, false);
            let r = check(&bytes, &mut ctx);
            let el = t.elapsed();
            if el.as_millis() > 300 && slow < 5 {
                slow += 1;
                println!("SLOW {} {:?} sample len {}", i, el, ctx.sample.as_ref().map(|s| s.len()).unwrap_or(0));
                if let Some(s) = &ctx.sample {
                    println!("{}", crate::runner::truncate(s, 3000));
                }
            }
            if let Some(w) = ctx.skipped {
                *skips.entry(w.to_string()).or_insert(0) += 1;
                if w.starts_with("variables-rejected") && skips[w] < 4 {
                    let (cb, _) = exec_ops::split_world_bytes(&bytes);
                    let case = exec_ops::case(&cb, &opts(Tier::Quick));
                    println!("REJECTED VARS: {:?}\n{}", Coercer::new(&case.schema).coerce_variable_values(&case.var_defs, &case.variables), case.render());
                }
                if w.starts_with("apollo-validation") && skips[w] < 6 {
                    let mut ctx2 = Ctx::new(Tier::Quick, true);
                    let _ = check(&bytes, &mut ctx2);
                    println!("{}", ctx2.sample.unwrap_or_default());
                }
            }
            if let Outcome::Fail { sig, detail } = r {
                let e = fails.entry(sig).or_insert((0, String::new()));
                e.0 += 1;
                if e.1.is_empty() {
                    e.1 = format!("#{} {}\n{}", i, detail, ctx.sample.unwrap_or_default());
                }
            }
        }
        println!("elapsed {:?} for {} cases", t0.elapsed(), n);
        println!("skips {:?}", skips);
        for (k, (n, d)) in &fails {
            println!("FAIL {} x{}\n{}\n", k, n, crate::runner::truncate(d, 2500));
        }
    }
}
