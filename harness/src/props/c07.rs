//! C07 Standalone type and field-set parsing consume the whole input.
use crate::apollo::parse::{self, Entry};
use crate::choices::Choices;
use crate::gen::syntax;
use crate::refmodel::ast::{Field, Selection, Type};
use crate::refmodel::{parser, printer};
use crate::runner::{catch, Ctx, Outcome, Prop, Tier};
use std::sync::OnceLock;

pub fn prop() -> Prop {
    Prop::new(
        "C07",
        "Standalone type and field-set parsing consume the whole input",
        "Cases: prefix + core + suffix, where core is a printed type reference (nesting <= 5) or a selection set \
         (braced or brace-less field set over a fixed schema) and prefix/suffix are 0-3 tokens from the token \
         alphabet or ignored tokens only. Oracle (one-directional, as stated): if apollo reports no error \
         (Parser::parse_type / parse_selection_set errors empty; apollo_compiler Parser::parse_type / parse_field_set \
         Ok) then the independent reference parser accepts the WHOLE input as exactly one type / one selection set. \
         Non-trivial: prefix or suffix contains a non-ignored token; distinct by (entry kind, text).",
    )
    .random("affixed", check, |t| if t == Tier::Quick { 4_000_000 } else { 12_000_000 }, |t| if t == Tier::Quick { 120 } else { 200 })
    .text(check_text_both)
    .assumptions(&[
        "a panic of a standalone entry point is C01's subject (reported there); here such inputs are counted under class 'panic' and not judged",
        "the converse direction (every valid input is accepted) is measured (class accepted-valid must be > 0) but not asserted",
    ])
}

const AFFIX: &[&str] = &["]", "[", "!", "}", "{", "x", "a", "Int", "1", "\"s\"", "...", ":", "@d", "$v", "(", ")", "|", "&", "=", "on", "1.5", "\"\"\"b\"\"\""];
const IGNORED: &[&str] = &[" ", "\n", ",", "\t", "# c\n", "\u{FEFF}", " , "];

fn affix(c: &mut Choices) -> (String, bool) {
    let mut s = String::new();
    let mut significant = false;
    let n = c.small(3);
    for _ in 0..n {
        if c.bool(150) {
            s.push_str(c.pick(AFFIX));
            significant = true;
        } else {
            s.push_str(c.pick(IGNORED));
        }
        if c.coin() {
            s.push(' ');
        }
    }
    (s, significant)
}

fn gen_type(c: &mut Choices, depth: usize) -> Type {
    let base = if depth > 0 && c.bool(110) { Type::List(Box::new(gen_type(c, depth - 1))) } else { Type::Named(c.pick(&["Int", "T", "a", "on", "_x"]).to_string()) };
    if c.bool(90) {
        base.non_null()
    } else {
        base
    }
}

/// selections over the fixed schema: Query { a: T, b(x: Int): Int, f: [T] }  T { a: T, x: Int, id: ID }
fn gen_sels(c: &mut Choices, on_query: bool, depth: usize) -> Vec<Selection> {
    let n = 1 + c.small(3);
    (0..n)
        .map(|_| {
            let composite = depth > 0 && c.bool(90);
            let (name, args) = if composite {
                (if on_query { c.pick(&["a", "f"]) } else { "a" }, vec![])
            } else if on_query {
                ("b", if c.coin() { vec![("x".to_string(), crate::refmodel::ast::Value::int(1))] } else { vec![] })
            } else {
                (c.pick(&["x", "id"]), vec![])
            };
            Selection::Field(Field {
                alias: if c.bool(40) { Some("al".into()) } else { None },
                name: name.to_string(),
                args,
                directives: vec![],
                selection_set: if composite { gen_sels(c, false, depth - 1) } else { vec![] },
            })
        })
        .collect()
}

fn schema() -> &'static apollo_compiler::validation::Valid<apollo_compiler::Schema> {
    static S: OnceLock<apollo_compiler::validation::Valid<apollo_compiler::Schema>> = OnceLock::new();
    S.get_or_init(|| {
        apollo_compiler::Schema::parse_and_validate("type Query { a: T, b(x: Int): Int, f: [T] } type T { a: T, x: Int, id: ID }", "fixed.graphql").expect("fixed schema is valid")
    })
}

pub fn check_type_text(src: &str, ctx: &mut Ctx) -> Outcome {
    let reference_ok = parser::parse_type_whole(src).is_ok();
    let mut fails = vec![];
    match catch(|| parse::parse(Entry::Type, src, None, None).errors.is_empty()) {
        Err(_) => ctx.class("panic:parse_type"),
        Ok(no_error) => {
            if no_error && !reference_ok {
                fails.push(("C07|trailing|parse_type".to_string(), format!("Parser::parse_type reports no error for {:?}, which is not exactly one type reference", src)));
            }
            if no_error && reference_ok {
                ctx.class("accepted-valid:type");
            }
        }
    }
    match catch(|| apollo_compiler::parser::Parser::new().parse_type(src, "t.graphql").is_ok()) {
        Err(_) => ctx.class("panic:ast::Type::parse"),
        Ok(ok) => {
            if ok && !reference_ok {
                fails.push(("C07|trailing|ast::Type::parse".to_string(), format!("apollo_compiler parse_type returns Ok for {:?}, which is not exactly one type reference", src)));
            }
        }
    }
    ctx.pick_failure(fails)
}

pub fn check_set_text(src: &str, ctx: &mut Ctx) -> Outcome {
    let reference_ok = parser::parse_field_set_whole(src).is_ok();
    let mut fails = vec![];
    match catch(|| parse::parse(Entry::SelectionSet, src, None, None).errors.is_empty()) {
        Err(_) => ctx.class("panic:parse_selection_set"),
        Ok(no_error) => {
            if no_error && !reference_ok {
                fails.push(("C07|trailing|parse_selection_set".to_string(), format!("Parser::parse_selection_set reports no error for {:?}, which is not exactly one selection set", src)));
            }
            if no_error && reference_ok {
                ctx.class("accepted-valid:selection-set");
            }
        }
    }
    match catch(|| apollo_compiler::parser::Parser::new().parse_field_set(schema(), apollo_compiler::name!("Query"), src, "fs.graphql").is_ok()) {
        Err(_) => ctx.class("panic:FieldSet::parse"),
        Ok(ok) => {
            if ok && !reference_ok {
                fails.push(("C07|trailing|FieldSet::parse".to_string(), format!("apollo_compiler parse_field_set returns Ok for {:?}, which is not exactly one selection set", src)));
            }
            if ok && reference_ok {
                ctx.class("accepted-valid:FieldSet");
            }
        }
    }
    ctx.pick_failure(fails)
}

/// Replay of a raw text: judged under both readings.
fn check_text_both(src: &str, ctx: &mut Ctx) -> Outcome {
    match check_type_text(src, ctx) {
        Outcome::Pass => check_set_text(src, ctx),
        f => f,
    }
}

pub fn check(bytes: &[u8], ctx: &mut Ctx) -> Outcome {
    let mut c = Choices::new(bytes);
    let is_type = c.coin();
    let (pre, ps) = if c.bool(110) { affix(&mut c) } else { (String::new(), false) };
    let core = if is_type {
        gen_type(&mut c, 5).print()
    } else {
        let sels = gen_sels(&mut c, true, 3);
        if c.coin() {
            printer::print_selection_set(&sels)
        } else {
            let mut t = printer::Toks::default();
            for s in &sels {
                t.selection(s);
            }
            printer::join_plain(&t.0)
        }
    };
    let (suf, ss) = if c.bool(150) { affix(&mut c) } else { (String::new(), false) };
    let _ = syntax::NAMES;
    let sep1 = if pre.is_empty() { "" } else { " " };
    let sep2 = if suf.is_empty() { "" } else { " " };
    let text = format!("{}{}{}{}{}", pre, sep1, core, sep2, suf);
    ctx.nontrivial = ps || ss;
    ctx.class(if is_type { "type" } else { "selection-set" });
    ctx.set_sample(format!("{} {:?}", if is_type { "type" } else { "set" }, text));
    if is_type {
        check_type_text(&text, ctx)
    } else {
        check_set_text(&text, ctx)
    }
}
