//! C16 Validation is idempotent.
use crate::apollo::schema as ap;
use crate::choices::Choices;
use crate::runner::{Ctx, Outcome, Prop, Tier};
use apollo_compiler::ast::{DirectiveDefinition, DirectiveLocation, FieldDefinition, InputValueDefinition, Type};
use apollo_compiler::schema::{Component, ExtendedType};
use apollo_compiler::validation::Valid;
use apollo_compiler::{ExecutableDocument, Name, Node, Schema};
use std::collections::BTreeSet;

pub fn prop() -> Prop {
    Prop::new(
        "C16",
        "Validation is idempotent",
        "Cases: schemas of the C14 stream that apollo accepts (mostly unmutated or neutrally mutated), then a history: \
         (a) validate -> into_inner -> validate: Ok and equal, incl. ordered type and directive lists; \
         (b) validate -> into_inner -> add 1-3 references to built-in scalars that validation pruned (as a new object field, \
         field argument, input field or directive-definition argument, any list/non-null wrapping) -> validate: Ok and \
         type-name SET = previous set + referenced scalars, all else unchanged; in a third of the histories every \
         reference to one present built-in scalar is first redirected to a custom scalar, so that scalar must be pruned \
         again (unless re-referenced) and a further validation must change nothing; \
         (c) `{ __typename }` and selections of argument-free-callable fields of the query root: \
         parse_and_validate Ok => into_inner().validate(&schema) Ok. \
         Non-trivial: the first validation pruned at least one built-in scalar; distinct by text + edit plan.",
    )
    .random(
        "histories",
        check,
        |t| if t == Tier::Quick { 600_000 } else { 2_500_000 },
        |t| if t == Tier::Quick { 700 } else { 1000 },
    )
    .text(check_text)
    .assumptions(&["the restore order of re-inserted scalars is not constrained (set comparison)"])
}

const SCALARS: [&str; 5] = ["Int", "Float", "String", "Boolean", "ID"];

fn type_names(s: &Schema) -> Vec<String> {
    s.types.keys().map(|k| k.to_string()).collect()
}

fn wrap(c: &mut Choices, named: &str, allow_outer_non_null: bool) -> Type {
    let base = Type::Named(Name::new(named).expect("scalar name"));
    let t = match c.choose(6) {
        0 => base,
        1 => base.non_null(),
        2 => base.list(),
        3 => base.non_null().list(),
        4 => base.non_null().list().non_null(),
        _ => base.list().list().non_null(),
    };
    if !allow_outer_non_null && t.is_non_null() {
        match t {
            Type::NonNullNamed(n) => Type::Named(n),
            Type::NonNullList(i) => Type::List(i),
            other => other,
        }
    } else {
        t
    }
}


fn rename_in_type(t: &Type, from: &str, to: &Name) -> Type {
    match t {
        Type::Named(n) => Type::Named(if n == from { to.clone() } else { n.clone() }),
        Type::NonNullNamed(n) => Type::NonNullNamed(if n == from { to.clone() } else { n.clone() }),
        Type::List(i) => Type::List(Box::new(rename_in_type(i, from, to))),
        Type::NonNullList(i) => Type::NonNullList(Box::new(rename_in_type(i, from, to))),
    }
}

/// Remove every reference to the built-in scalar `from`: all field, argument, input-field and
/// directive-argument types naming it name the custom scalar `C16Any` instead (added if missing; a
/// custom scalar accepts every literal, and replacing a named type consistently keeps interface
/// implementations valid). Returns whether anything referred to it.
pub(crate) fn unreference(s: &mut Schema, from: &str) -> bool {
    let to = Name::new("C16Any").unwrap();
    let mut any = false;
    let fix_args = |args: &mut Vec<Node<InputValueDefinition>>, any: &mut bool| {
        for a in args.iter_mut() {
            if a.ty.inner_named_type() == from {
                let nt = rename_in_type(&a.ty, from, &to);
                a.make_mut().ty = Node::new(nt);
                *any = true;
            }
        }
    };
    let names: Vec<Name> = s.types.keys().cloned().collect();
    for n in names {
        if n.starts_with("__") {
            continue;
        }
        match s.types.get_mut(&n) {
            Some(ExtendedType::Object(o)) => {
                for (_, f) in o.make_mut().fields.iter_mut() {
                    let f = f.make_mut();
                    if f.ty.inner_named_type() == from {
                        f.ty = rename_in_type(&f.ty, from, &to);
                        any = true;
                    }
                    fix_args(&mut f.arguments, &mut any);
                }
            }
            Some(ExtendedType::Interface(o)) => {
                for (_, f) in o.make_mut().fields.iter_mut() {
                    let f = f.make_mut();
                    if f.ty.inner_named_type() == from {
                        f.ty = rename_in_type(&f.ty, from, &to);
                        any = true;
                    }
                    fix_args(&mut f.arguments, &mut any);
                }
            }
            Some(ExtendedType::InputObject(o)) => {
                for (_, f) in o.make_mut().fields.iter_mut() {
                    if f.ty.inner_named_type() == from {
                        let nt = rename_in_type(&f.ty, from, &to);
                        f.make_mut().ty = Node::new(nt);
                        any = true;
                    }
                }
            }
            _ => {}
        }
    }
    let dnames: Vec<Name> = s.directive_definitions.iter().filter(|(_, d)| !d.is_built_in()).map(|(n, _)| n.clone()).collect();
    for n in dnames {
        if let Some(d) = s.directive_definitions.get_mut(&n) {
            if d.arguments.iter().any(|a| a.ty.inner_named_type() == from) {
                fix_args(&mut d.make_mut().arguments, &mut any);
            }
        }
    }
    if any && !s.types.contains_key("C16Any") {
        let name = Name::new("C16Any").unwrap();
        s.types.insert(name.clone(), ExtendedType::Scalar(Node::new(apollo_compiler::schema::ScalarType { description: None, name, directives: Default::default() })));
    }
    any
}

fn ivd(name: &str, ty: Type) -> Node<InputValueDefinition> {
    Node::new(InputValueDefinition { description: None, name: Name::new(name).unwrap(), ty: Node::new(ty), default_value: None, directives: Default::default() })
}

/// One edit referencing `scalar`; returns a description. Every edit keeps a valid schema valid.
pub(crate) fn edit(c: &mut Choices, s: &mut Schema, scalar: &str, k: usize) -> String {
    let mut objects: Vec<String> = s.types.iter().filter(|(n, t)| matches!(t, ExtendedType::Object(_)) && !n.starts_with("__")).map(|(n, _)| n.to_string()).collect();
    objects.sort();
    let mut inputs: Vec<String> = s.types.iter().filter(|(_, t)| matches!(t, ExtendedType::InputObject(_))).map(|(n, _)| n.to_string()).collect();
    inputs.sort();
    let mut dirs: Vec<String> = s.directive_definitions.iter().filter(|(_, d)| !d.is_built_in()).map(|(n, _)| n.to_string()).collect();
    dirs.sort();
    let choice = c.choose(5);
    match choice {
        1 if !objects.is_empty() => {
            // argument on an existing field of an object type; optional, because the field may
            // implement an interface field
            let on = &objects[c.choose(objects.len())];
            let ty = wrap(c, scalar, false);
            let Some(ExtendedType::Object(o)) = s.types.get_mut(on.as_str()) else { unreachable!() };
            let o = o.make_mut();
            let mut fnames: Vec<String> = o.fields.keys().map(|k| k.to_string()).collect();
            fnames.sort();
            let fname = fnames[c.choose(fnames.len())].clone();
            let f = o.fields.get_mut(fname.as_str()).unwrap().make_mut();
            let d = format!("argument {}.{}(c16a{}: {})", on, fname, k, ty);
            f.arguments.push(ivd(&format!("c16a{}", k), ty));
            d
        }
        2 if !inputs.is_empty() => {
            let on = &inputs[c.choose(inputs.len())];
            // optional: literals of this input object in directive applications must stay valid
            let ty = wrap(c, scalar, false);
            let Some(ExtendedType::InputObject(o)) = s.types.get_mut(on.as_str()) else { unreachable!() };
            let d = format!("input field {}.c16i{}: {}", on, k, ty);
            let name = Name::new(&format!("c16i{}", k)).unwrap();
            o.make_mut().fields.insert(name, Component::new(InputValueDefinition { description: None, name: Name::new(&format!("c16i{}", k)).unwrap(), ty: Node::new(ty), default_value: None, directives: Default::default() }));
            d
        }
        3 if !dirs.is_empty() => {
            // optional argument on an existing custom directive definition (it may be applied)
            let on = &dirs[c.choose(dirs.len())];
            let ty = wrap(c, scalar, false);
            let d = format!("directive argument @{}(c16d{}: {})", on, k, ty);
            s.directive_definitions.get_mut(on.as_str()).unwrap().make_mut().arguments.push(ivd(&format!("c16d{}", k), ty));
            d
        }
        4 => {
            // new directive definition, any wrapping (it has no applications)
            let ty = wrap(c, scalar, true);
            let name = Name::new(&format!("c16dir{}", k)).unwrap();
            let d = format!("directive @c16dir{}(a: {})", k, ty);
            s.directive_definitions.insert(
                name.clone(),
                Node::new(DirectiveDefinition { description: None, name, arguments: vec![ivd("a", ty)], repeatable: false, locations: vec![DirectiveLocation::Field] }),
            );
            d
        }
        _ => {
            // new field on an object type, any wrapping
            if objects.is_empty() {
                return "no object type".into();
            }
            let on = &objects[c.choose(objects.len())];
            let ty = wrap(c, scalar, true);
            let Some(ExtendedType::Object(o)) = s.types.get_mut(on.as_str()) else { unreachable!() };
            let d = format!("field {}.c16f{}: {}", on, k, ty);
            let name = Name::new(&format!("c16f{}", k)).unwrap();
            o.make_mut().fields.insert(name.clone(), Component::new(FieldDefinition { description: None, name, arguments: vec![], ty, directives: Default::default() }));
            d
        }
    }
}

fn errors_of(e: &apollo_compiler::validation::DiagnosticList) -> String {
    let (kinds, msgs) = ap::diagnostic_kinds(e);
    format!("{:?} {}", kinds, msgs)
}

/// Operations that are certainly valid against `schema`.
fn simple_operations(schema: &Schema) -> Vec<String> {
    let mut ops = vec!["{ __typename }".to_string(), "query Q { a: __typename ... on Query { __typename } }".to_string()];
    let Some(q) = schema.schema_definition.query.as_ref() else { return vec![] };
    if q.name.as_str() != "Query" {
        ops.pop();
    }
    let Some(ExtendedType::Object(root)) = schema.types.get(q.name.as_str()) else { return ops };
    let mut leafs = vec![];
    let mut composites = vec![];
    for (name, f) in &root.fields {
        if f.arguments.iter().any(|a| a.ty.is_non_null() && a.default_value.is_none()) {
            continue;
        }
        match schema.types.get(f.ty.inner_named_type().as_str()) {
            Some(ExtendedType::Scalar(_) | ExtendedType::Enum(_)) => leafs.push(name.to_string()),
            Some(ExtendedType::Object(_) | ExtendedType::Interface(_) | ExtendedType::Union(_)) => composites.push(name.to_string()),
            _ => {}
        }
    }
    if !leafs.is_empty() {
        ops.push(format!("{{ {} }}", leafs.join(" ")));
        ops.push(format!("query Named {{ x: {} __typename }}", leafs[0]));
    }
    if !composites.is_empty() {
        ops.push(format!("{{ {} }}", composites.iter().map(|c| format!("{} {{ __typename }}", c)).collect::<Vec<_>>().join(" ")));
    }
    ops
}

fn history(text: &str, c: &mut Choices, ctx: &mut Ctx) -> Outcome {
    let v1: Valid<Schema> = match ap::parse_and_validate(text) {
        Ok(v) => v,
        Err(_) => {
            ctx.class("rejected");
            return Outcome::Pass;
        }
    };
    ctx.class("accepted");
    let mut fails: Vec<(String, String)> = vec![];
    let names1 = type_names(&v1);
    let pruned: Vec<&str> = SCALARS.iter().cloned().filter(|s| !v1.types.contains_key(*s)).collect();
    ctx.class(format!("pruned:{}", pruned.len()));
    ctx.nontrivial = !pruned.is_empty();

    // (a) validate again, unchanged
    let s1: Schema = v1.clone().into_inner();
    match s1.validate() {
        Err(e) => fails.push(("C16|revalidate|rejected".into(), format!("second validation of an unchanged valid schema fails: {}\n{}", errors_of(&e.errors), text))),
        Ok(v2) => {
            if type_names(&v2) != names1 {
                let (a, b): (BTreeSet<_>, BTreeSet<_>) = (names1.iter().cloned().collect(), type_names(&v2).into_iter().collect());
                let sig = if a == b { "C16|revalidate|type-order-changed" } else { "C16|revalidate|type-set-changed" };
                fails.push((sig.into(), format!("types before {:?}\nafter {:?}\n{}", names1, type_names(&v2), text)));
            } else if v2.directive_definitions.keys().ne(v1.directive_definitions.keys()) {
                fails.push(("C16|revalidate|directive-order-changed".into(), text.to_string()));
            } else if *v2 != *v1 {
                fails.push(("C16|revalidate|schema-changed".into(), format!("re-validated schema differs from the first result\n{}", text)));
            }
        }
    }

    // (b) reference 1-3 built-in scalars (pruned ones first), validate
    {
        let mut s: Schema = v1.clone().into_inner();
        let n = 1 + c.choose(3);
        let mut referenced: BTreeSet<String> = BTreeSet::new();
        let mut plan = vec![];
        // sometimes first REMOVE every reference to one built-in scalar that is present (String and
        // Boolean are always referenced by the introspection types and built-in directives)
        let mut unreferenced: Option<&str> = None;
        if c.bool(90) {
            let present: Vec<&str> = ["Int", "Float", "ID"].into_iter().filter(|x| v1.types.contains_key(*x)).collect();
            if !present.is_empty() {
                let sc = present[c.choose(present.len())];
                if unreference(&mut s, sc) {
                    unreferenced = Some(sc);
                    plan.push(format!("every reference to {} now names the custom scalar C16Any", sc));
                    ctx.class("unreferenced-a-scalar");
                }
            }
        }
        for k in 0..n {
            let pool: Vec<&str> = if !pruned.is_empty() && c.bool(230) { pruned.clone() } else { SCALARS.to_vec() };
            let sc = pool[c.choose(pool.len())];
            let d = edit(c, &mut s, sc, k);
            if d != "no object type" {
                referenced.insert(sc.to_string());
            }
            plan.push(d);
        }
        ctx.sample = Some(format!("{}\n# edits: {:?}", ctx.sample.clone().unwrap_or_default(), plan));
        let newly = referenced.iter().filter(|r| pruned.contains(&r.as_str())).count();
        ctx.class(format!("restored:{}", newly));
        match s.validate() {
            Err(e) => fails.push(("C16|edit|rejected".into(), format!("validation after edits {:?} fails: {}\n{}", plan, errors_of(&e.errors), text))),
            Ok(v3) => {
                let mut want: BTreeSet<String> = names1.iter().cloned().collect();
                if let Some(u) = unreferenced {
                    // no longer referenced: validation must prune it, unless an edit below refers to it again
                    want.remove(u);
                    want.insert("C16Any".to_string());
                }
                want.extend(referenced.iter().cloned());
                let got: BTreeSet<String> = type_names(&v3).into_iter().collect();
                if type_names(&v3).len() != got.len() {
                    fails.push(("C16|edit|duplicate-type-key".into(), format!("{:?}", type_names(&v3))));
                }
                if got != want {
                    let missing: Vec<_> = want.difference(&got).collect();
                    let extra: Vec<_> = got.difference(&want).collect();
                    let sig = if !missing.is_empty() { "C16|edit|scalar-not-restored" } else { "C16|edit|extra-types" };
                    fails.push((sig.into(), format!("after edits {:?}: missing {:?}, unexpected {:?}\n{}", plan, missing, extra, text)));
                }
                for sc in &referenced {
                    if !matches!(v3.types.get(sc.as_str()), Some(ExtendedType::Scalar(_))) && got.contains(sc) {
                        fails.push(("C16|edit|restored-not-scalar".into(), format!("{} restored as a non-scalar", sc)));
                    }
                }
                // everything that was there is untouched except the edited definitions: the user
                // types keep their relative order
                let before: Vec<&String> = names1.iter().filter(|n| !SCALARS.contains(&n.as_str())).collect();
                let after_names = type_names(&v3);
                let after: Vec<&String> = after_names.iter().filter(|n| !SCALARS.contains(&n.as_str()) && (n.as_str() != "C16Any" || names1.iter().any(|x| x == "C16Any"))).collect();
                if before != after {
                    fails.push(("C16|edit|user-type-order-changed".into(), format!("{:?} vs {:?}", before, after)));
                }
                // and validating the result once more changes nothing
                let names3 = type_names(&v3);
                match v3.clone().into_inner().validate() {
                    Err(e) => fails.push(("C16|edit|revalidate-rejected".into(), errors_of(&e.errors))),
                    Ok(v4) => {
                        if type_names(&v4) != names3 || *v4 != *v3 {
                            fails.push(("C16|edit|revalidate-changed".into(), format!("{:?} vs {:?}", names3, type_names(&v4))));
                        }
                    }
                }
            }
        }
    }

    // (c) executable documents
    for op in simple_operations(&v1) {
        match ExecutableDocument::parse_and_validate(&v1, &op, "op.graphql") {
            Err(_) => ctx.class("exec-first-validation-rejected"),
            Ok(doc) => {
                ctx.sub_evals += 1;
                let copy = doc.clone();
                match doc.into_inner().validate(&v1) {
                    Err(e) => fails.push(("C16|exec|revalidate-rejected".into(), format!("{} : {}\n{}", op, errors_of(&e.errors), text))),
                    Ok(again) => {
                        if *again != *copy {
                            fails.push(("C16|exec|revalidate-changed".into(), format!("{}\n{}", op, text)));
                        }
                    }
                }
            }
        }
    }
    ctx.pick_failure(fails)
}

pub fn check_text(text: &str, ctx: &mut Ctx) -> Outcome {
    ctx.set_sample(text.to_string());
    // a fixed, non-trivial edit plan for text repros
    let bytes: Vec<u8> = vec![200, 255, 0, 0, 255, 60, 0, 0, 255, 120, 0, 0];
    let mut c = Choices::new(&bytes);
    history(text, &mut c, ctx)
}

pub fn check(bytes: &[u8], ctx: &mut Ctx) -> Outcome {
    let mut c = Choices::new(bytes);
    // the edit plan is decoded from a prefix so that short vectors still exercise edits
    let plan: Vec<u8> = c.bytes(16);
    let (text, labels) = super::c14::gen_case_weighted(&mut c, ctx.tier, &[70, 25, 5]);
    ctx.set_sample(format!("# mutations: {:?}\n{}", labels, text));
    let mut pc = Choices::new(&plan);
    history(&text, &mut pc, ctx)
}
