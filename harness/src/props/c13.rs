//! C13 Building from several sources is compositional.
use crate::apollo::schema_walk::{diff, messages, normalise_message, walk_executable, walk_schema, Line};
use crate::choices::Choices;
use crate::gen::{schema_ext, syntax};
use crate::refmodel::ast::*;
use crate::refmodel::parser::parse_document;
use crate::refmodel::printer;
use crate::runner::{Ctx, Outcome, Prop, Tier};
use apollo_compiler::validation::{DiagnosticList, Valid};
use apollo_compiler::{ExecutableDocument, Schema};
use std::collections::{BTreeMap, BTreeSet};
use std::sync::OnceLock;

pub const CHUNK_MARK: &str = "#---chunk";
pub const MOVED_MARK: &str = "#---moved";
pub const EXEC_MARK: &str = "#---exec";
pub const ADOPT_MARK: &str = "#---adopt";
pub const NOSCHEMA_MARK: &str = "#---noschema";

pub fn prop() -> Prop {
    Prop::new(
        "C13",
        "Building from several sources is compositional",
        "Cases: (a) a definition list cut into 1-5 consecutive non-empty chunks, each printed as a complete source \
         text; type-system lists come from valid rich-extension schemas plus collision mutations (duplicated \
         definitions, same name with another kind, kind-mismatched and orphan extensions, duplicated fields / \
         values / members / interfaces, duplicate schema definitions and root operations, built-in scalar \
         redefinitions, executable definitions), from a dense generator over a tiny name pool and from grammatical \
         random documents; executable lists are operations (anonymous, shorthand, named from a 3-name pool) and \
         fragments over a fixed valid schema, with undefined fields / types, sub-selections on leaves and \
         type-system definitions. Built chunk by chunk (SchemaBuilder::parse / ExecutableDocument::builder) vs \
         from the concatenation c1+\"\\n\"+...+ck: equal serialization, equal ==, equal order-sensitive walk, equal \
         SEQUENCE of diagnostic messages (diagnostic.error.to_string(), i.e. without file name, line or snippet). (b) the first p extensions that follow a type's \
         (or the schema's) definition are moved in front of it, sibling order preserved (1-3 synthesized extensions of the same or another kind, and schema \
         extensions, are added so that several can move): same comparisons, diagnostics as a multiset (their \
         locations, hence their order, legitimately change). \
         Non-trivial: (a) >=2 chunks and a name defined/extended in two chunks or referenced across chunks \
         (for executable: colliding operation/fragment names, a spread of a fragment of another chunk, an anonymous \
         operation plus any operation in another chunk); (b) always (an extension moved). Distinct by rendered case.",
    )
    .random("chunked-schema", check_chunks_schema, |t| if t == Tier::Quick { 60_000 } else { 1_200_000 }, |t| if t == Tier::Quick { 1200 } else { 1600 })
    .random("chunked-executable", check_chunks_exec, |t| if t == Tier::Quick { 80_000 } else { 1_600_000 }, |t| if t == Tier::Quick { 400 } else { 800 })
    .random("moved-extension", check_moved, |t| if t == Tier::Quick { 60_000 } else { 1_200_000 }, |t| if t == Tier::Quick { 1200 } else { 1600 })
    .text(check_text)
    .assumptions(&[
        "chunks are grammatical and non-empty; a shorthand query never directly follows a definition that may be continued by `{` (the concatenation would parse differently); the concatenation is re-parsed by the reference parser and must give the same definition list, otherwise the case is skipped",
        "only extensions that FOLLOW the (first) definition of their name are moved, to positions between their last earlier sibling extension and the definition; built-in type names are never targets",
        "diagnostics are compared through `diagnostic.error.to_string()` (message without file/line/snippet): as a sequence for chunked vs concatenated builds (SchemaBuilder::build sorts by (file id, offset), file ids are allocated in parse order; the executable builder reports in traversal order), as a multiset for moved extensions",
        "executable documents are built against one fixed valid schema, or without a schema",
    ])
}

// ------------------------------------------------------------------------------------------------
// building and comparing

struct Built {
    text: String,
    walk: Vec<Line>,
    msgs: Vec<String>,
}

fn build_schema(texts: &[String], adopt: bool) -> (Schema, Built) {
    let mut b = Schema::builder();
    if adopt {
        b = b.adopt_orphan_extensions();
    }
    for (i, t) in texts.iter().enumerate() {
        b = b.parse(t.clone(), format!("chunk{}.graphql", i + 1));
    }
    let (s, msgs) = match b.build() {
        Ok(s) => (s, vec![]),
        Err(w) => {
            let m = messages(&w.errors);
            (w.partial, m)
        }
    };
    let built = Built { text: s.to_string(), walk: walk_schema(&s), msgs };
    (s, built)
}

pub const EXEC_SCHEMA: &str = r#"
type Query { a: Int, b(x: Int): String, o: Obj, i: Iface, u: Uni, e: En, list: [Obj!], id: ID }
type Mutation { m(v: In): Int, o: Obj, a: Int }
type Obj implements Iface { id: ID, name: String, o: Obj, e: En, a: Int }
interface Iface { id: ID }
union Uni = Obj | Other
type Other { z: Float, o: Obj, a: Int }
enum En { A B }
input In { p: Int }
directive @d(k: Int) repeatable on QUERY | MUTATION | SUBSCRIPTION | FIELD | FRAGMENT_DEFINITION | FRAGMENT_SPREAD | INLINE_FRAGMENT | VARIABLE_DEFINITION
"#;

fn exec_schema() -> &'static Valid<Schema> {
    static S: OnceLock<Valid<Schema>> = OnceLock::new();
    S.get_or_init(|| Schema::parse_and_validate(EXEC_SCHEMA, "exec_schema.graphql").expect("fixed schema of C13 is valid"))
}

fn build_exec(texts: &[String], no_schema: bool) -> (ExecutableDocument, Built) {
    let mut errors = DiagnosticList::new(Default::default());
    let mut b = ExecutableDocument::builder(if no_schema { None } else { Some(exec_schema()) }, &mut errors);
    for (i, t) in texts.iter().enumerate() {
        b = b.parse(t.clone(), format!("chunk{}.graphql", i + 1));
    }
    let doc = b.build();
    let built = Built { text: doc.to_string(), walk: walk_executable(&doc), msgs: messages(&errors) };
    (doc, built)
}

/// Messages only in `a`, only in `b` (multiset difference).
fn multiset_diff(a: &[String], b: &[String]) -> (Vec<String>, Vec<String>) {
    let mut m: BTreeMap<&str, i64> = BTreeMap::new();
    for x in a {
        *m.entry(x).or_insert(0) += 1;
    }
    for x in b {
        *m.entry(x).or_insert(0) -= 1;
    }
    let mut oa = vec![];
    let mut ob = vec![];
    for (k, v) in m {
        for _ in 0..v.max(0) {
            oa.push(k.to_string());
        }
        for _ in 0..(-v).max(0) {
            ob.push(k.to_string());
        }
    }
    (oa, ob)
}

/// Compare two builds; `names` are the human labels of the two sides.
fn compare(prefix: &str, names: (&str, &str), a: &Built, b: &Built, equal: bool, moved: bool) -> Vec<(String, String)> {
    let mut fails: Vec<(String, String)> = vec![];
    let show = |x: &Built| format!("{}\n  diagnostics: {:?}", x.text, x.msgs);
    let both = format!("--- {}:\n{}\n--- {}:\n{}", names.0, show(a), names.1, show(b));
    for d in diff(&a.walk, &b.walk) {
        let sig = format!("{prefix}|walk|{}", d.kind);
        if !fails.iter().any(|(s, _)| *s == sig) {
            fails.push((sig, format!("{}: {} has [{}], {} has [{}]\n{}", d.path, names.0, d.left.as_deref().unwrap_or("<absent>"), names.1, d.right.as_deref().unwrap_or("<absent>"), both)));
        }
    }
    let (oa, ob) = multiset_diff(&a.msgs, &b.msgs);
    if !oa.is_empty() || !ob.is_empty() {
        let cause = if moved && ob.is_empty() && oa.iter().all(|m| normalise_message(m) == "type-extension-kind-mismatch") {
            // root cause: orphan extensions adopted by a later definition are filtered by kind
            // without a diagnostic (`*Type::from_ast`), while `type_extension!` reports them
            "kind-mismatch-not-reported-before-definition".to_string()
        } else {
            normalise_message(oa.first().or(ob.first()).unwrap())
        };
        fails.push((format!("{prefix}|diagnostics|{cause}"), format!("diagnostic messages differ: only {}: {:?}; only {}: {:?}\n{}", names.0, oa, names.1, ob, both)));
    } else if !moved && a.msgs != b.msgs {
        // same sources in the same order: diagnostics are sorted by (file, offset) resp. reported as met,
        // so the SEQUENCE of messages is the same too (moving an extension legitimately changes it)
        fails.push((format!("{prefix}|diagnostic-order"), format!("the same diagnostic messages are reported in another order\n{both}")));
    }
    if !equal {
        fails.push((format!("{prefix}|not-equal"), format!("the two results are not == \n{both}")));
    }
    if a.text != b.text {
        fails.push((format!("{prefix}|serialization"), format!("serializations differ\n{both}")));
    }
    fails
}

// ------------------------------------------------------------------------------------------------
// generators

const POOL: &[&str] = &["A", "B", "C", "Query", "Mutation", "Int"];
const COMPONENTS: &[&str] = &["a", "b", "c", "A", "B"];

fn open_ended(d: &Definition) -> bool {
    match d {
        Definition::Type(t) => match t.kind {
            TypeKind::Object | TypeKind::Interface => t.fields.is_empty(),
            TypeKind::Enum => t.values.is_empty(),
            TypeKind::InputObject => t.input_fields.is_empty(),
            _ => false,
        },
        Definition::Schema(s) => s.roots.is_empty(),
        _ => false,
    }
}

/// `type A` directly followed by `{ a }` would read as the type's body: spell `query` out.
fn fix_shorthand(defs: &mut [Definition]) {
    for i in 1..defs.len() {
        if open_ended(&defs[i - 1]) {
            if let Definition::Operation(o) = &mut defs[i] {
                o.shorthand = false;
            }
        }
    }
}

fn rename_components(c: &mut Choices, t: &mut TypeDef) {
    for n in t.implements.iter_mut().chain(t.members.iter_mut()) {
        if c.coin() {
            *n = c.pick(COMPONENTS).to_string();
        }
    }
    for f in t.fields.iter_mut() {
        if c.coin() {
            f.name = c.pick(COMPONENTS).to_string();
        }
    }
    for f in t.values.iter_mut() {
        if c.coin() {
            f.name = c.pick(COMPONENTS).to_string();
        }
    }
    for f in t.input_fields.iter_mut() {
        if c.coin() {
            f.name = c.pick(COMPONENTS).to_string();
        }
    }
}

fn named_op(c: &mut Choices) -> Definition {
    Definition::Operation(OperationDef {
        op: c.pick(&OpType::ALL),
        shorthand: false,
        name: Some(c.pick(&["Q1", "Q2"]).to_string()),
        vars: vec![],
        directives: vec![],
        selection_set: vec![Selection::Field(Field { alias: None, name: "a".into(), args: vec![], directives: vec![], selection_set: vec![] })],
    })
}

/// A definition over a tiny name pool: collisions, mismatches and orphans are the common case.
fn dense_def(c: &mut Choices) -> Definition {
    match c.weighted(&[34, 36, 8, 8, 10, 4]) {
        0 | 1 => {
            let is_ext = c.bool(140);
            let mut t = syntax::type_def(c, is_ext);
            t.name = c.pick(POOL).to_string();
            rename_components(c, &mut t);
            Definition::Type(t)
        }
        2 => Definition::Schema(syntax::schema_def(c, false)),
        3 => Definition::Schema(syntax::schema_def(c, true)),
        4 => {
            let mut d = syntax::directive_def(c);
            d.name = c.pick(&["d", "e", "deprecated", "skip"]).to_string();
            Definition::Directive(d)
        }
        _ => named_op(c),
    }
}

fn simple_field(name: &str) -> FieldDef {
    FieldDef { description: None, name: name.into(), args: vec![], ty: Type::named("Int"), directives: vec![] }
}

/// An extension of `name` of the given kind that contributes one component.
fn synth_ext(c: &mut Choices, kind: TypeKind, name: &str) -> TypeDef {
    let mut e = TypeDef::new(kind, name);
    e.is_ext = true;
    let n = c.pick(&["a", "zz", "b"]);
    match kind {
        TypeKind::Scalar => e.directives.push(Directive { name: "tag".into(), args: vec![] }),
        TypeKind::Object | TypeKind::Interface => e.fields.push(simple_field(n)),
        TypeKind::Union => e.members.push(c.pick(&["Query", "A", "Obj0"]).to_string()),
        TypeKind::Enum => e.values.push(EnumValueDef { description: None, name: n.to_uppercase(), directives: vec![] }),
        TypeKind::InputObject => e.input_fields.push(InputValueDef { description: None, name: n.into(), ty: Type::named("Int"), default: None, directives: vec![] }),
    }
    if c.bool(60) && kind != TypeKind::Scalar {
        e.directives.push(Directive { name: "tag".into(), args: vec![] });
    }
    e
}

fn insert_at(c: &mut Choices, defs: &mut Vec<Definition>, d: Definition) {
    let i = c.choose(defs.len() + 1);
    defs.insert(i, d);
}

/// Collision / mismatch / orphan mutations of a definition list. Returns labels of what was done.
fn collisions(c: &mut Choices, defs: &mut Vec<Definition>, k: usize) -> Vec<&'static str> {
    let mut done = vec![];
    for _ in 0..k {
        let type_idx: Vec<usize> = defs.iter().enumerate().filter(|(_, d)| matches!(d, Definition::Type(_))).map(|(i, _)| i).collect();
        let type_def_idx: Vec<usize> = defs.iter().enumerate().filter(|(_, d)| matches!(d, Definition::Type(t) if !t.is_ext)).map(|(i, _)| i).collect();
        match c.choose(9) {
            0 if !defs.is_empty() => {
                let d = defs[c.choose(defs.len())].clone();
                insert_at(c, defs, d);
                done.push("duplicate-definition");
            }
            1 if !type_def_idx.is_empty() => {
                // same name, another kind
                let i = type_def_idx[c.choose(type_def_idx.len())];
                if let Definition::Type(t) = &defs[i] {
                    let kind = c.pick(&TypeKind::ALL);
                    let mut e = synth_ext(c, kind, &t.name);
                    e.is_ext = false;
                    insert_at(c, defs, Definition::Type(e));
                    done.push("same-name-other-kind");
                }
            }
            2 if !type_def_idx.is_empty() => {
                let i = type_def_idx[c.choose(type_def_idx.len())];
                if let Definition::Type(t) = &defs[i] {
                    let others: Vec<TypeKind> = TypeKind::ALL.iter().cloned().filter(|k| *k != t.kind).collect();
                    let kind = c.pick(&others);
                    let e = synth_ext(c, kind, &t.name);
                    insert_at(c, defs, Definition::Type(e));
                    done.push("kind-mismatched-extension");
                }
            }
            3 => {
                let kind = c.pick(&TypeKind::ALL);
                let name = c.pick(&["Nope", "Orphan"]);
                let e = synth_ext(c, kind, name);
                insert_at(c, defs, Definition::Type(e));
                done.push("orphan-extension");
            }
            4 if !type_idx.is_empty() => {
                let i = type_idx[c.choose(type_idx.len())];
                if let Definition::Type(t) = &mut defs[i] {
                    macro_rules! dup {
                        ($v: expr) => {
                            if !$v.is_empty() {
                                let x = $v[c.choose($v.len())].clone();
                                let at = c.choose($v.len() + 1);
                                $v.insert(at, x);
                            }
                        };
                    }
                    dup!(t.fields);
                    dup!(t.values);
                    dup!(t.members);
                    dup!(t.input_fields);
                    if c.coin() {
                        dup!(t.implements);
                    }
                    done.push("duplicate-component");
                }
            }
            5 if type_idx.len() >= 1 => {
                // a component of one definition/extension repeated in a sibling of the same name
                let i = type_idx[c.choose(type_idx.len())];
                if let Definition::Type(t) = &defs[i] {
                    let mut e = TypeDef::new(t.kind, &t.name);
                    e.is_ext = true;
                    if let Some(f) = t.fields.first() {
                        e.fields.push(f.clone());
                    }
                    if let Some(f) = t.values.last() {
                        e.values.push(f.clone());
                    }
                    if let Some(f) = t.members.first() {
                        e.members.push(f.clone());
                    }
                    if let Some(f) = t.input_fields.last() {
                        e.input_fields.push(f.clone());
                    }
                    if let Some(f) = t.implements.first() {
                        e.implements.push(f.clone());
                    }
                    if e.fields.is_empty() && e.values.is_empty() && e.members.is_empty() && e.input_fields.is_empty() && e.implements.is_empty() {
                        e.directives.push(Directive { name: "tag".into(), args: vec![] });
                    }
                    insert_at(c, defs, Definition::Type(e));
                    done.push("component-repeated-in-extension");
                }
            }
            6 => {
                let t = TypeDef::new(TypeKind::Scalar, c.pick(&["Int", "ID", "String"]));
                insert_at(c, defs, Definition::Type(t));
                done.push("builtin-scalar-redefinition");
            }
            7 => {
                let d = named_op(c);
                insert_at(c, defs, d);
                done.push("executable-definition");
            }
            _ => {
                let is_ext = c.coin();
                let roots = vec![(c.pick(&OpType::ALL), c.pick(&["Query", "A", "Obj0"]).to_string())];
                insert_at(c, defs, Definition::Schema(SchemaDef { is_ext, description: None, directives: vec![], roots }));
                done.push(if is_ext { "extra-schema-extension" } else { "extra-schema-definition" });
            }
        }
    }
    done
}

/// A type-system definition list and a label for its source.
pub(crate) fn ts_defs(c: &mut Choices, max_types: usize) -> (Vec<Definition>, &'static str, Vec<&'static str>) {
    let (mut defs, source, muts) = match c.weighted(&[45, 35, 20]) {
        0 => {
            let (doc, _) = schema_ext::rich_schema(c, max_types);
            let mut defs = doc.defs;
            let muts = if c.bool(215) {
                let k = 1 + c.small(2);
                collisions(c, &mut defs, k)
            } else {
                vec![]
            };
            (defs, "rich-valid-schema", muts)
        }
        1 => {
            let n = 2 + c.small(6);
            ((0..n).map(|_| dense_def(c)).collect(), "dense-name-pool", vec![])
        }
        _ => {
            let doc = syntax::document(c, &syntax::Cfg { max_depth: 2, executable: false, type_system: true });
            let mut defs = doc.defs;
            let muts = if c.coin() { collisions(c, &mut defs, 1) } else { vec![] };
            (defs, "grammatical-random", muts)
        }
    };
    fix_shorthand(&mut defs);
    (defs, source, muts)
}

const E_OPS: &[&str] = &["Q1", "Q2", "Q3"];
const E_FRAGS: &[&str] = &["F1", "F2", "F3"];
const E_FIELDS: &[&str] = &["a", "o", "id", "b", "i", "u", "e", "name", "z", "m", "list", "nope", "__typename"];
const E_TYPES: &[&str] = &["Obj", "Iface", "Uni", "Other", "Query", "En", "Nope"];

fn e_directives(c: &mut Choices) -> Vec<Directive> {
    if !c.bool(36) {
        return vec![];
    }
    match c.choose(3) {
        0 => vec![Directive { name: "d".into(), args: vec![] }],
        1 => vec![Directive { name: "d".into(), args: vec![("k".into(), Value::Int("1".into()))] }],
        _ => vec![Directive { name: "undefinedDirective".into(), args: vec![] }],
    }
}

fn e_selection_set(c: &mut Choices, depth: usize) -> Vec<Selection> {
    let n = 1 + c.small(2);
    (0..n)
        .map(|_| {
            let w_inline = if depth > 0 { 14 } else { 0 };
            match c.weighted(&[70, 16, w_inline]) {
                0 => Selection::Field(Field {
                    alias: if c.bool(24) { Some(c.pick(&["x", "y"]).to_string()) } else { None },
                    name: c.pick(E_FIELDS).to_string(),
                    args: if c.bool(30) { vec![("x".into(), Value::Int("1".into()))] } else { vec![] },
                    directives: e_directives(c),
                    selection_set: if depth > 0 && c.bool(110) { e_selection_set(c, depth - 1) } else { vec![] },
                }),
                1 => Selection::Spread(FragmentSpread { name: c.pick(E_FRAGS).to_string(), directives: e_directives(c) }),
                _ => Selection::Inline(InlineFragment {
                    type_condition: if c.bool(190) { Some(c.pick(E_TYPES).to_string()) } else { None },
                    directives: e_directives(c),
                    selection_set: e_selection_set(c, depth - 1),
                }),
            }
        })
        .collect()
}

fn e_def(c: &mut Choices) -> Definition {
    match c.weighted(&[14, 14, 40, 26, 6]) {
        0 => Definition::Operation(OperationDef { op: OpType::Query, shorthand: true, name: None, vars: vec![], directives: vec![], selection_set: e_selection_set(c, 2) }),
        k @ (1 | 2) => Definition::Operation(OperationDef {
            op: c.pick(&OpType::ALL),
            shorthand: false,
            name: if k == 2 { Some(c.pick(E_OPS).to_string()) } else { None },
            vars: if c.bool(30) { vec![VarDef { name: "v".into(), ty: Type::named("Int"), default: Some(Value::Int("1".into())), directives: vec![] }] } else { vec![] },
            directives: e_directives(c),
            selection_set: e_selection_set(c, 2),
        }),
        3 => Definition::Fragment(FragmentDef { name: c.pick(E_FRAGS).to_string(), type_condition: c.pick(E_TYPES).to_string(), directives: e_directives(c), selection_set: e_selection_set(c, 2) }),
        _ => match c.choose(3) {
            0 => {
                let mut t = TypeDef::new(TypeKind::Object, "T");
                t.fields.push(simple_field("a"));
                Definition::Type(t)
            }
            1 => Definition::Type(TypeDef::new(TypeKind::Scalar, "S")),
            _ => Definition::Type(synth_ext(c, TypeKind::Object, "Query")),
        },
    }
}

fn exec_defs(c: &mut Choices) -> (Vec<Definition>, &'static str) {
    let (mut defs, source) = if c.bool(60) {
        (syntax::document(c, &syntax::Cfg { max_depth: 2, executable: true, type_system: false }).defs, "grammatical-random")
    } else {
        let n = 2 + c.small(5);
        ((0..n).map(|_| e_def(c)).collect::<Vec<_>>(), "fixed-schema-operations")
    };
    fix_shorthand(&mut defs);
    (defs, source)
}

/// Chunking decisions, drawn BEFORE the definitions so that they are not starved by a short
/// choice stream.
struct Plan {
    k: usize,
    fracs: [u8; 4],
    /// type-system: SchemaBuilder::adopt_orphan_extensions; executable: build without a schema
    alt: bool,
}

fn plan(c: &mut Choices) -> Plan {
    let k = 1 + c.weighted(&[10, 40, 25, 15, 10]);
    let fracs = [c.byte(), c.byte(), c.byte(), c.byte()];
    let alt = c.bool(40);
    Plan { k, fracs, alt }
}

/// Cut `n` definitions into 1-5 consecutive non-empty chunks; returns the chunk sizes.
fn cut(p: &Plan, n: usize) -> Vec<usize> {
    if n == 0 {
        return vec![];
    }
    let k = p.k.min(n);
    let mut cuts: BTreeSet<usize> = BTreeSet::new();
    for i in 1..k {
        cuts.insert(1 + ((p.fracs[i - 1] as usize * (n - 1)) >> 8));
    }
    let mut sizes = vec![];
    let mut prev = 0;
    for p in cuts {
        sizes.push(p - prev);
        prev = p;
    }
    sizes.push(n - prev);
    sizes
}

fn print_chunks(defs: &[Definition], sizes: &[usize]) -> Vec<String> {
    let mut out = vec![];
    let mut at = 0;
    for s in sizes {
        out.push(printer::print_document(&Document { defs: defs[at..at + s].to_vec() }));
        at += s;
    }
    out
}

// ------------------------------------------------------------------------------------------------
// non-triviality: names defined / referenced per chunk

#[derive(Default)]
struct Names {
    defined: Vec<String>,
    referenced: BTreeSet<String>,
    anonymous_ops: usize,
    ops: usize,
}

fn dir_refs(ds: &[Directive], n: &mut Names) {
    for d in ds {
        n.referenced.insert(format!("dir:{}", d.name));
    }
}

fn sel_refs(s: &[Selection], n: &mut Names) {
    for x in s {
        match x {
            Selection::Field(f) => {
                dir_refs(&f.directives, n);
                sel_refs(&f.selection_set, n);
            }
            Selection::Spread(f) => {
                dir_refs(&f.directives, n);
                n.referenced.insert(format!("frag:{}", f.name));
            }
            Selection::Inline(f) => {
                dir_refs(&f.directives, n);
                sel_refs(&f.selection_set, n);
            }
        }
    }
}

fn names_of(defs: &[Definition]) -> Names {
    let mut n = Names::default();
    for d in defs {
        match d {
            Definition::Type(t) => {
                n.defined.push(format!("type:{}", t.name));
                for x in t.implements.iter().chain(t.members.iter()) {
                    n.referenced.insert(format!("type:{x}"));
                }
                dir_refs(&t.directives, &mut n);
                for f in &t.fields {
                    n.referenced.insert(format!("type:{}", f.ty.inner_name()));
                    dir_refs(&f.directives, &mut n);
                    for a in &f.args {
                        n.referenced.insert(format!("type:{}", a.ty.inner_name()));
                        dir_refs(&a.directives, &mut n);
                    }
                }
                for f in &t.input_fields {
                    n.referenced.insert(format!("type:{}", f.ty.inner_name()));
                    dir_refs(&f.directives, &mut n);
                }
                for v in &t.values {
                    dir_refs(&v.directives, &mut n);
                }
            }
            Definition::Schema(s) => {
                n.defined.push("schema".into());
                dir_refs(&s.directives, &mut n);
                for (_, r) in &s.roots {
                    n.referenced.insert(format!("type:{r}"));
                }
            }
            Definition::Directive(d) => {
                n.defined.push(format!("dir:{}", d.name));
                for a in &d.args {
                    n.referenced.insert(format!("type:{}", a.ty.inner_name()));
                }
            }
            Definition::Operation(o) => {
                n.ops += 1;
                match &o.name {
                    Some(x) => n.defined.push(format!("op:{x}")),
                    None => n.anonymous_ops += 1,
                }
                dir_refs(&o.directives, &mut n);
                sel_refs(&o.selection_set, &mut n);
            }
            Definition::Fragment(f) => {
                n.defined.push(format!("frag:{}", f.name));
                dir_refs(&f.directives, &mut n);
                sel_refs(&f.selection_set, &mut n);
            }
        }
    }
    n
}

/// ("collision or extension across chunks", "reference across chunks")
fn cross_chunk(defs: &[Definition], sizes: &[usize]) -> (bool, bool) {
    let mut per: Vec<Names> = vec![];
    let mut at = 0;
    for s in sizes {
        per.push(names_of(&defs[at..at + s]));
        at += s;
    }
    let mut collision = false;
    let mut reference = false;
    for (i, a) in per.iter().enumerate() {
        for (j, b) in per.iter().enumerate() {
            if i == j {
                continue;
            }
            if a.defined.iter().any(|x| b.defined.contains(x)) {
                collision = true;
            }
            if a.defined.iter().any(|x| b.referenced.contains(x)) {
                reference = true;
            }
            if a.anonymous_ops > 0 && b.ops > 0 {
                collision = true;
            }
        }
    }
    (collision, reference)
}

// ------------------------------------------------------------------------------------------------
// checks

fn render_chunks(chunks: &[String], exec: bool, alt: bool) -> String {
    let mut s = String::new();
    if exec {
        s.push_str(EXEC_MARK);
        s.push('\n');
    }
    if alt {
        s.push_str(if exec { NOSCHEMA_MARK } else { ADOPT_MARK });
        s.push('\n');
    }
    s.push_str(&chunks.join(&format!("{CHUNK_MARK}\n")));
    s
}

fn run_chunks(chunks: &[String], exec: bool, adopt: bool, ctx: &mut Ctx) -> Outcome {
    let whole = vec![chunks.join("\n")];
    let fails = if exec {
        let (da, a) = build_exec(chunks, adopt);
        let (db, b) = build_exec(&whole, adopt);
        compare("C13|chunks|executable", ("chunk by chunk", "concatenation"), &a, &b, da == db, false)
    } else {
        let (sa, a) = build_schema(chunks, adopt);
        let (sb, b) = build_schema(&whole, adopt);
        ctx.class(if a.msgs.is_empty() { "builds-cleanly" } else { "build-errors" });
        compare("C13|chunks|schema", ("chunk by chunk", "concatenation"), &a, &b, sa == sb, false)
    };
    ctx.pick_failure(fails)
}

fn chunk_case(defs: Vec<Definition>, source: &'static str, exec: bool, p: &Plan, ctx: &mut Ctx) -> Outcome {
    let sizes = cut(p, defs.len());
    let adopt = p.alt;
    let chunks = print_chunks(&defs, &sizes);
    ctx.set_sample(render_chunks(&chunks, exec, adopt));
    ctx.class(format!("chunks:{}", sizes.len()));
    ctx.class(format!("source:{source}"));
    if adopt {
        ctx.class(if exec { "built-without-schema" } else { "adopt-orphan-extensions" });
    }
    // the concatenation must denote the same definition list (harness self-check)
    match parse_document(&chunks.join("\n")) {
        Ok(d) if d.defs == defs => {}
        _ => return ctx.skip("generator: concatenation does not re-parse to the same definition list"),
    }
    let (collision, reference) = cross_chunk(&defs, &sizes);
    if sizes.len() >= 2 {
        if collision {
            ctx.class("cross-chunk:same-name-defined-or-extended");
        }
        if reference {
            ctx.class("cross-chunk:reference");
        }
    }
    ctx.nontrivial = sizes.len() >= 2 && (collision || reference);
    run_chunks(&chunks, exec, adopt, ctx)
}

pub fn check_chunks_schema(bytes: &[u8], ctx: &mut Ctx) -> Outcome {
    let mut c = Choices::new(bytes);
    let p = plan(&mut c);
    let (defs, source, muts) = ts_defs(&mut c, if ctx.tier == Tier::Quick { 2 } else { 3 });
    for m in muts {
        ctx.class(format!("mutation:{m}"));
    }
    chunk_case(defs, source, false, &p, ctx)
}

pub fn check_chunks_exec(bytes: &[u8], ctx: &mut Ctx) -> Outcome {
    let mut c = Choices::new(bytes);
    let p = plan(&mut c);
    let (defs, source) = exec_defs(&mut c);
    chunk_case(defs, source, true, &p, ctx)
}

fn is_builtin_name(n: &str) -> bool {
    n.starts_with("__") || ["Int", "Float", "String", "Boolean", "ID"].contains(&n)
}

/// Key of an extension / definition for sibling bookkeeping: type name or "schema".
fn ext_key(d: &Definition) -> Option<(String, bool)> {
    match d {
        Definition::Type(t) => Some((format!("type:{}", t.name), t.is_ext)),
        Definition::Schema(s) => Some(("schema".into(), s.is_ext)),
        _ => None,
    }
}

fn compare_moved(orig_text: &str, moved_text: &str, adopt: bool, ctx: &mut Ctx) -> Outcome {
    let (sa, a) = build_schema(&[orig_text.to_string()], adopt);
    let (sb, b) = build_schema(&[moved_text.to_string()], adopt);
    ctx.class(if a.msgs.is_empty() { "builds-cleanly" } else { "build-errors" });
    if adopt {
        ctx.class("moved:adopt-orphan-extensions");
    }
    let fails = compare("C13|moved-ext", ("extensions after the definition", "extensions moved before the definition"), &a, &b, sa == sb, true);
    ctx.pick_failure(fails)
}

pub fn check_moved(bytes: &[u8], ctx: &mut Ctx) -> Outcome {
    let mut c = Choices::new(bytes);
    // decisions about the move are drawn first so that a short stream does not starve them
    let pre = c.bytes(24);
    let mut pc = Choices::new(&pre);
    let (mut defs, source, muts) = ts_defs(&mut c, if ctx.tier == Tier::Quick { 2 } else { 3 });
    // executable definitions are irrelevant here and could interact with open-ended definitions
    defs.retain(|d| !d.is_executable());
    ctx.class(format!("source:{source}"));
    for m in muts {
        ctx.class(format!("mutation:{m}"));
    }
    // candidate targets: a name whose first definition is followed by at least one extension
    let candidates = |defs: &[Definition]| -> Vec<(String, usize, Vec<usize>)> {
        let mut out: Vec<(String, usize, Vec<usize>)> = vec![];
        for (i, d) in defs.iter().enumerate() {
            if let Some((k, false)) = ext_key(d) {
                if out.iter().any(|(n, _, _)| *n == k) || defs[..i].iter().any(|x| ext_key(x) == Some((k.clone(), false))) {
                    continue;
                }
                if let Some(n) = k.strip_prefix("type:") {
                    if is_builtin_name(n) {
                        continue;
                    }
                }
                let after: Vec<usize> = defs.iter().enumerate().filter(|(j, x)| *j > i && ext_key(x) == Some((k.clone(), true))).map(|(j, _)| j).collect();
                if !after.is_empty() {
                    out.push((k, i, after));
                }
            }
        }
        out
    };
    let mut cands = candidates(&defs);
    if cands.is_empty() || pc.bool(50) {
        // synthesize an extension (same kind or not) after a type definition
        let tdefs: Vec<usize> = defs.iter().enumerate().filter(|(_, d)| matches!(d, Definition::Type(t) if !t.is_ext && !is_builtin_name(&t.name))).map(|(i, _)| i).collect();
        if !tdefs.is_empty() {
            let i = tdefs[pc.choose(tdefs.len())];
            if let Definition::Type(t) = &defs[i] {
                let (name, def_kind) = (t.name.clone(), t.kind);
                // one to three extensions after the definition, of its kind or not
                let k = 1 + pc.weighted(&[55, 28, 17]);
                for _ in 0..k {
                    let kind = if pc.bool(90) { pc.pick(&TypeKind::ALL) } else { def_kind };
                    let e = synth_ext(&mut pc, kind, &name);
                    let at = i + 1 + pc.choose(defs.len() - i);
                    defs.insert(at, Definition::Type(e));
                }
            }
        }
        // schema extensions after an explicit schema definition
        if let Some(i) = defs.iter().position(|d| matches!(d, Definition::Schema(s) if !s.is_ext)) {
            if pc.bool(110) {
                let k = 1 + pc.choose(2);
                for _ in 0..k {
                    let roots = if pc.bool(80) { vec![(pc.pick(&OpType::ALL), pc.pick(&["Query", "A", "Obj0"]).to_string())] } else { vec![] };
                    let e = SchemaDef { is_ext: true, description: None, directives: vec![Directive { name: "tag".into(), args: vec![("n".into(), Value::Int(pc.choose(4).to_string()))] }], roots };
                    let at = i + 1 + pc.choose(defs.len() - i);
                    defs.insert(at, Definition::Schema(e));
                }
            }
        }
        cands = candidates(&defs);
    }
    if cands.is_empty() {
        ctx.set_sample(printer::print_document(&Document { defs }));
        return ctx.skip("no definition followed by one of its extensions");
    }
    let pick = match cands.iter().position(|(k, _, _)| k == "schema") {
        Some(i) if pc.bool(100) => i,
        _ => pc.choose(cands.len()),
    };
    let (key, mut d, mut after) = cands[pick].clone();
    // builder mode: in adopt_orphan_extensions mode extensions of types that are never defined become
    // types at build(); their order must not depend on where another type's extension stands. Add a few
    // such orphans (before and after the target definition) in that mode.
    let adopt = pc.bool(80);
    if adopt {
        let k = pc.choose(4);
        for n in 0..k {
            let kind = pc.pick(&TypeKind::ALL);
            let e = synth_ext(&mut pc, kind, ["Orph0", "Orph1", "Orph2"][n % 3]);
            let at = pc.choose(defs.len() + 1);
            defs.insert(at, Definition::Type(e));
            if at <= d {
                d += 1;
            }
            for j in after.iter_mut() {
                if at <= *j {
                    *j += 1;
                }
            }
        }
        ctx.class(format!("moved:orphans-of-undefined-types:{}", k));
    }
    let p = 1 + pc.choose(after.len());
    let orig = defs.clone();
    // lower bound: just after the last sibling extension that already precedes the definition
    let lb = defs[..d].iter().rposition(|x| ext_key(x) == Some((key.clone(), true))).map(|i| i + 1).unwrap_or(0);
    let mut moving: Vec<Definition> = vec![];
    for &j in after[..p].iter().rev() {
        moving.insert(0, defs.remove(j));
    }
    // mostly directly before the definition or anywhere in the allowed range
    let mut slots: Vec<usize> = (0..p).map(|_| if pc.coin() { d } else { lb + pc.choose(d - lb + 1) }).collect();
    slots.sort();
    let mut kinds_mismatch = false;
    let def_kind = match &defs[d] {
        Definition::Type(t) => Some(t.kind),
        _ => None,
    };
    for (k, (slot, e)) in slots.iter().zip(moving.into_iter()).enumerate() {
        if let (Definition::Type(t), Some(dk)) = (&e, def_kind) {
            if t.kind != dk {
                kinds_mismatch = true;
            }
        }
        defs.insert(slot + k, e);
    }
    let orig_text = printer::print_document(&Document { defs: orig.clone() });
    let moved_text = printer::print_document(&Document { defs: defs.clone() });
    ctx.set_sample(format!("{}{orig_text}{MOVED_MARK}\n{moved_text}", if adopt { format!("{ADOPT_MARK}\n") } else { String::new() }));
    ctx.class(if key == "schema" { "moved:schema-extension" } else if kinds_mismatch { "moved:type-extension-kind-mismatch" } else { "moved:type-extension-same-kind" });
    ctx.class(format!("moved-count:{}", p.min(3)));
    // harness self-checks: both texts denote the intended lists and the move is legitimate
    match (parse_document(&orig_text), parse_document(&moved_text)) {
        (Ok(a), Ok(b)) if a.defs == orig && b.defs == defs => {
            if let Err(why) = legit_move(&a, &b) {
                return Outcome::fail("C13|harness|illegitimate-move", why);
            }
        }
        _ => return ctx.skip("generator: text does not re-parse to the same definition list"),
    }
    ctx.nontrivial = true;
    compare_moved(&orig_text, &moved_text, adopt, ctx)
}

/// `moved` must be `orig` with some extensions moved from after to before their definition:
/// same definitions in the same order, same sibling order of every name's extensions, no
/// extension moved from before to after its definition, at least one moved before.
pub fn legit_move(orig: &Document, moved: &Document) -> Result<(), String> {
    let non_ext = |d: &Document| -> Vec<Definition> { d.defs.iter().filter(|x| !matches!(ext_key(x), Some((_, true)))).cloned().collect() };
    if non_ext(orig) != non_ext(moved) {
        return Err("definitions (non-extensions) differ or are reordered".into());
    }
    let keys: BTreeSet<String> = orig.defs.iter().chain(moved.defs.iter()).filter_map(|d| ext_key(d)).filter(|(_, e)| *e).map(|(k, _)| k).collect();
    let mut any = false;
    for k in keys {
        let exts = |d: &Document| -> Vec<Definition> { d.defs.iter().filter(|x| ext_key(x) == Some((k.clone(), true))).cloned().collect() };
        if exts(orig) != exts(moved) {
            return Err(format!("sibling extensions of {k} differ or are reordered"));
        }
        let before = |d: &Document| -> usize {
            match d.defs.iter().position(|x| ext_key(x) == Some((k.clone(), false))) {
                Some(i) => d.defs[..i].iter().filter(|x| ext_key(x) == Some((k.clone(), true))).count(),
                None => 0,
            }
        };
        let (bo, bm) = (before(orig), before(moved));
        if bm < bo {
            return Err(format!("an extension of {k} moved from before to after its definition"));
        }
        if bm > bo {
            any = true;
        }
    }
    if !any {
        return Err("no extension was moved before its definition".into());
    }
    Ok(())
}

/// Replay of hand-written cases. Format: optional first lines `#---exec` (executable documents
/// against the fixed schema; with `#---noschema` built without a schema) and `#---adopt`
/// (adopt_orphan_extensions); then either chunks
/// separated by `#---chunk` lines, or an original and a moved schema document separated by a
/// `#---moved` line.
pub fn check_text(text: &str, ctx: &mut Ctx) -> Outcome {
    let mut exec = false;
    let mut adopt = false;
    let mut lines: Vec<&str> = text.lines().collect();
    while let Some(first) = lines.first() {
        if first.trim() == EXEC_MARK {
            exec = true;
        } else if first.trim() == ADOPT_MARK || first.trim() == NOSCHEMA_MARK {
            adopt = true;
        } else {
            break;
        }
        lines.remove(0);
    }
    if lines.iter().any(|l| l.trim() == MOVED_MARK) {
        let i = lines.iter().position(|l| l.trim() == MOVED_MARK).unwrap();
        let orig = lines[..i].join("\n") + "\n";
        let moved = lines[i + 1..].join("\n") + "\n";
        match (parse_document(&orig), parse_document(&moved)) {
            (Ok(a), Ok(b)) => {
                if let Err(why) = legit_move(&a, &b) {
                    return Outcome::fail("C13|bad-repro", why);
                }
            }
            _ => return Outcome::fail("C13|bad-repro", "the reference parser rejects the original or the moved document"),
        }
        ctx.nontrivial = true;
        return compare_moved(&orig, &moved, adopt, ctx);
    }
    let mut chunks: Vec<String> = vec![String::new()];
    for l in lines {
        if l.trim() == CHUNK_MARK {
            chunks.push(String::new());
        } else {
            let cur = chunks.last_mut().unwrap();
            cur.push_str(l);
            cur.push('\n');
        }
    }
    // the concatenation must denote the chunks' definitions one after another
    let mut all: Vec<Definition> = vec![];
    for ch in &chunks {
        match parse_document(ch) {
            Ok(d) if !d.defs.is_empty() => all.extend(d.defs),
            _ => return Outcome::fail("C13|bad-repro", "a chunk is empty or rejected by the reference parser"),
        }
    }
    match parse_document(&chunks.join("\n")) {
        Ok(d) if d.defs == all => {}
        _ => return Outcome::fail("C13|bad-repro", "the concatenation does not denote the chunks' definitions"),
    }
    ctx.nontrivial = chunks.len() >= 2;
    run_chunks(&chunks, exec, adopt, ctx)
}
