//! C06 String literals decode to their spec-defined values.
use crate::apollo::astwalk;
use crate::choices::Choices;
use crate::gen::strlit;
use crate::refmodel::strings;
use crate::runner::{Ctx, Outcome, Prop, Tier};
use apollo_parser::cst::{self, CstNode};

pub fn prop() -> Prop {
    Prop::new(
        "C06",
        "String literals decode to their spec-defined values",
        "Cases: one string literal, lexically valid BY CONSTRUCTION (quoted: plain characters incl. non-ASCII/BOM/ \
         U+2028, every simple escape, \\uXXXX for any non-surrogate code point in upper/lower hex; block: lines with \
         space/tab/mixed indentation, blank and whitespace-only lines, \\n / \\r\\n / \\r terminators, \\\"\"\" , lone \
         backslashes, quotes), placed at 26 positions of a template document (every description kind, argument \
         values, default values, directive arguments, inside list and object values). Oracle: char-based \
         transcription of StringValue semantics and BlockStringValue(); observed at String::from(&cst::StringValue) \
         for every STRING_VALUE node and at every description / Value::String of ast::Document::parse. Non-trivial: \
         the literal has an escape or is a block string with >= 2 lines; distinct by literal text.",
    )
    .random("literals", check, |t| if t == Tier::Quick { 1_000_000 } else { 12_000_000 }, |t| if t == Tier::Quick { 120 } else { 240 })
    .text(check_literal)
}

const TEMPLATE: &str = "§ schema @d(x: §) { query: Q }
§ type Q { § f(§ a: String = §): String @d(x: §) }
§ enum E { § V @d(x: [§, {k: §}]) }
§ directive @d(§ x: String = §) repeatable on FIELD_DEFINITION | ENUM_VALUE | SCHEMA | FIELD | QUERY
§ input I { § g: String = § }
§ scalar S
§ union U = Q
§ interface N { § h: Int }
query($v: String = §) @d(x: §) { f(a: §) @d(x: [[§]]) }
";

pub fn check_literal(raw: &str, ctx: &mut Ctx) -> Outcome {
    let Some(expected) = strings::token_value(raw) else {
        return ctx.skip("literal not valid for the reference");
    };
    let positions = TEMPLATE.matches('§').count();
    let text = TEMPLATE.replace('§', &format!(" {} ", raw));
    // CST level
    let tree = apollo_parser::Parser::new(&text).parse();
    if tree.errors().len() > 0 {
        let e = tree.errors().next().unwrap();
        return Outcome::fail("C06|syntax-error-on-valid-literal", format!("literal {:?} (valid for the reference lexer) gives a syntax error: {:?}", raw, e));
    }
    let mut n = 0;
    for node in tree.document().syntax().descendants() {
        if let Some(sv) = cst::StringValue::cast(node) {
            n += 1;
            let got = String::from(&sv);
            if got != expected {
                return Outcome::fail(
                    format!("C06|cst|{}", if raw.starts_with("\"\"\"") { "block" } else { "quoted" }),
                    format!("String::from(&cst::StringValue) for {:?}: got {:?}, expected {:?}", raw, got, expected),
                );
            }
        }
    }
    if n != positions {
        return Outcome::fail("C06|cst|count", format!("{} STRING_VALUE nodes, expected {} for literal {:?}", n, positions, raw));
    }
    // AST level
    let doc = match apollo_compiler::ast::Document::parse(text.clone(), "c06.graphql") {
        Ok(d) => d,
        Err(e) => return Outcome::fail("C06|ast|parse-error", format!("ast::Document::parse fails for literal {:?}: {}", raw, e.errors)),
    };
    let found = astwalk::collect_strings(&doc);
    if found.len() != positions {
        return Outcome::fail("C06|ast|count", format!("{} strings in the AST, expected {} for literal {:?}", found.len(), positions, raw));
    }
    for (label, got) in &found {
        if *got != expected {
            return Outcome::fail(
                format!("C06|ast|{}|{}", label.split(':').next().unwrap_or(""), if raw.starts_with("\"\"\"") { "block" } else { "quoted" }),
                format!("{} for literal {:?}: got {:?}, expected {:?}", label, raw, got, expected),
            );
        }
    }
    ctx.sub_evals += (n + found.len()) as u64;
    Outcome::Pass
}

pub fn check(bytes: &[u8], ctx: &mut Ctx) -> Outcome {
    let mut c = Choices::new(bytes);
    let block = c.bool(120);
    let raw = if block { strlit::block_literal(&mut c, 6) } else { strlit::quoted_literal(&mut c, 12) };
    ctx.class(if block { "block" } else { "quoted" });
    ctx.nontrivial = if block { raw.contains('\n') || raw.contains('\r') } else { raw.contains('\\') };
    ctx.set_sample(format!("{:?}", raw));
    check_literal(&raw, ctx)
}
