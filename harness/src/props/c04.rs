//! C04 Token and recursion limits are enforced exactly.
use crate::apollo::parse::{self, Entry};
use crate::choices::Choices;
use crate::gen::{syntax, text};
use crate::refmodel::ast::*;
use crate::refmodel::{lexer, parser, printer};
use crate::runner::{Ctx, Outcome, Prop, Tier};

pub fn prop() -> Prop {
    Prop::new(
        "C04",
        "Token and recursion limits are enforced exactly",
        "Cases: documents (grammatical from the syntax generator with random ignored tokens, nesting templates, \
         and token-mutated/lexically broken variants) x token limit n swept around the true item count L \
         (0, 1, L-2..L+2, random) x recursion limit r swept around the true depth d (d-2..d+2, 0..3, random). L is the \
         INDEPENDENT reference lexer's item count (tokens incl. ignored ones + EOF) for lexically valid inputs; for \
         lexically invalid inputs the limited run is compared with apollo's own unlimited run (metamorphic). d is \
         computed on the reference AST (selection-set nesting + list-item / object-field nesting of values at that \
         point; list-type nesting). Oracles: limit error <=> L > n; tree text is a prefix of the input; leaf tokens \
         <= n; no error after the first limit error; token high <= n+1; recursion limit error <=> d > r and \
         high == min(d, r+1) on grammatical inputs, high <= r+1 otherwise; the compiler's recursion_reached / \
         tokens_reached equal the parser's high-water marks. Non-trivial: n within 2 of L, or r within 2 of d with \
         d >= 2; distinct by (text, n, r).",
    )
    .random("limits", check, |t| if t == Tier::Quick { 700_000 } else { 6_000_000 }, |t| if t == Tier::Quick { 400 } else { 800 })
    .text(check_text)
    .assumptions(&[
        "depth convention read from the property statement and confirmed on the crate's documented examples: a selection set adds 1 while inside it, each non-empty list value adds 1 around its items, each object field adds 1 around its value, each list type adds 1; `[]`, `{}` add nothing",
        "for the two standalone entry points only 'limit error => L > n' is asserted (they legitimately stop early)",
    ])
}

fn type_depth(t: &Type) -> usize {
    t.depth()
}
fn value_depth(v: &Value) -> usize {
    match v {
        Value::List(items) if !items.is_empty() => 1 + items.iter().map(value_depth).max().unwrap_or(0),
        Value::Object(fields) if !fields.is_empty() => 1 + fields.iter().map(|(_, v)| value_depth(v)).max().unwrap_or(0),
        _ => 0,
    }
}
fn args_depth(args: &[(String, Value)]) -> usize {
    args.iter().map(|(_, v)| value_depth(v)).max().unwrap_or(0)
}
fn dirs_depth(ds: &[Directive]) -> usize {
    ds.iter().map(|d| args_depth(&d.args)).max().unwrap_or(0)
}
/// depth reached inside a selection set that is itself at nesting `level` (level counts this set)
fn sels_depth(sels: &[Selection], level: usize) -> usize {
    let mut m = level;
    for s in sels {
        let d = match s {
            Selection::Field(f) => {
                let here = level + args_depth(&f.args).max(dirs_depth(&f.directives));
                if f.selection_set.is_empty() {
                    here
                } else {
                    here.max(sels_depth(&f.selection_set, level + 1))
                }
            }
            Selection::Spread(sp) => level + dirs_depth(&sp.directives),
            Selection::Inline(i) => (level + dirs_depth(&i.directives)).max(sels_depth(&i.selection_set, level + 1)),
        };
        m = m.max(d);
    }
    m
}
fn ivd_depth(a: &InputValueDef) -> usize {
    type_depth(&a.ty).max(a.default.as_ref().map(value_depth).unwrap_or(0)).max(dirs_depth(&a.directives))
}

pub fn doc_depth(d: &Document) -> usize {
    let mut m = 0;
    for def in &d.defs {
        let x = match def {
            Definition::Operation(o) => {
                let vars = o
                    .vars
                    .iter()
                    .map(|v| type_depth(&v.ty).max(v.default.as_ref().map(value_depth).unwrap_or(0)).max(dirs_depth(&v.directives)))
                    .max()
                    .unwrap_or(0);
                vars.max(dirs_depth(&o.directives)).max(sels_depth(&o.selection_set, 1))
            }
            Definition::Fragment(f) => dirs_depth(&f.directives).max(sels_depth(&f.selection_set, 1)),
            Definition::Schema(s) => dirs_depth(&s.directives),
            Definition::Directive(dd) => dd.args.iter().map(ivd_depth).max().unwrap_or(0),
            Definition::Type(t) => {
                let mut x = dirs_depth(&t.directives);
                for f in &t.fields {
                    x = x.max(type_depth(&f.ty)).max(dirs_depth(&f.directives)).max(f.args.iter().map(ivd_depth).max().unwrap_or(0));
                }
                for v in &t.values {
                    x = x.max(dirs_depth(&v.directives));
                }
                for f in &t.input_fields {
                    x = x.max(ivd_depth(f));
                }
                x
            }
        };
        m = m.max(x);
    }
    m
}

/// A document deeper and longer than most generated ones (used to check that the compiler's
/// reached figures are those of the last parse, not a running maximum).
const WARMUP: &str = "query W($v: [[[[Int]]]] = [[[[1, 2, 3]]]]) { a { b { c { d { e { f { g(x: {y: {z: [[[1]]]}}) { h i j k l m n o p q r s t u v w x y z } } } } } } } }";

fn fixed_schema() -> &'static apollo_compiler::validation::Valid<apollo_compiler::Schema> {
    static S: std::sync::OnceLock<apollo_compiler::validation::Valid<apollo_compiler::Schema>> = std::sync::OnceLock::new();
    S.get_or_init(|| apollo_compiler::Schema::parse_and_validate("type Query { a: Query b: Int }", "s.graphql").expect("fixed schema"))
}

struct Case {
    text: String,
    n: Option<usize>,
    r: Option<usize>,
}

fn sweep(c: &mut Choices, center: usize, max_random: usize) -> usize {
    match c.weighted(&[12, 12, 12, 12, 12, 8, 8, 8, 16]) {
        0 => center,
        1 => center.saturating_sub(1),
        2 => center + 1,
        3 => center.saturating_sub(2),
        4 => center + 2,
        5 => 0,
        6 => 1,
        7 => 2,
        _ => c.range(0, max_random),
    }
}

fn check_case(case: &Case, ctx: &mut Ctx) -> Outcome {
    let src = case.text.as_str();
    let ref_tokens = lexer::lex_all(src).ok();
    let lexically_valid = ref_tokens.is_some();
    // unlimited run (metamorphic baseline for lexically invalid inputs)
    let (unlimited_items, _) = crate::apollo::lex::items(src, None, src.len() + 3);
    let l = match &ref_tokens {
        Some(t) => t.len(),
        None => unlimited_items.len(),
    };
    let ref_doc = if lexically_valid { parser::parse_document(src).ok() } else { None };
    let d = ref_doc.as_ref().map(doc_depth);
    let mut fails: Vec<(String, String)> = vec![];

    // ---- lexer alone under the token limit
    if let Some(n) = case.n {
        let (items, overflow) = crate::apollo::lex::items(src, Some(n), src.len() + 4);
        if overflow {
            fails.push(("C04|lexer|non-termination".into(), format!("limited lexer does not terminate for {:?}", src)));
        }
        let limit_errs = items.iter().filter(|i| i.limit).count();
        let non_limit = items.iter().filter(|i| !i.limit).count();
        if (limit_errs > 0) != (l > n) {
            fails.push((
                format!("C04|lexer|limit-error-iff|{}", if limit_errs > 0 { "spurious" } else { "missing" }),
                format!("Lexer limit {}: stream has {} items (lexically valid: {}), limit errors {} for {:?}", n, l, lexically_valid, limit_errs, src),
            ));
        }
        if non_limit > n {
            fails.push(("C04|lexer|consumed-more-than-limit".into(), format!("Lexer limit {} yielded {} items for {:?}", n, non_limit, src)));
        }
        if limit_errs > 1 || (limit_errs == 1 && !items.last().map(|i| i.limit).unwrap_or(false)) {
            fails.push(("C04|lexer|items-after-limit".into(), format!("Lexer limit {}: limit error is not the single last item for {:?}", n, src)));
        }
    }

    // ---- document entry point
    let p = parse::parse(Entry::Document, src, case.n, case.r);
    let tree_text = p.root.text().to_string();
    let w = parse::walk(&p.root, &tree_text);
    let limit_positions: Vec<usize> = p.errors.iter().enumerate().filter(|(_, e)| e.is_limit).map(|(i, _)| i).collect();
    let token_limit_hit = p.errors.iter().any(|e| e.is_limit && e.message.contains("token limit"));
    let recursion_limit_hit = p.errors.iter().any(|e| e.is_limit && e.message.contains("recursion limit"));
    if let Some(n) = case.n {
        if token_limit_hit != (l > n) {
            fails.push((
                format!("C04|token|limit-error-iff|{}", if token_limit_hit { "spurious" } else { "missing" }),
                format!("token limit {}: stream has {} items (lexically valid: {}), token-limit error present: {} for {:?}", n, l, lexically_valid, token_limit_hit, src),
            ));
        }
        if !src.starts_with(&tree_text) {
            // Is this C02's recorded defect (the tree of the UNLIMITED parse already lacks text)?
            let unlimited = parse::parse(Entry::Document, src, None, case.r).root.text().to_string();
            if unlimited != src && unlimited.starts_with(&tree_text) {
                fails.push((
                    "C04|token|tree-not-prefix|unlimited-tree-already-lossy".into(),
                    format!("token limit {}: tree text {:?} is a prefix of the unlimited tree text but that tree already differs from the input {:?} (C02's dropped token)", n, tree_text, src),
                ));
            } else {
                fails.push(("C04|token|tree-not-prefix".into(), format!("token limit {}: tree text {:?} is not a prefix of {:?}", n, tree_text, src)));
            }
        }
        if w.tokens > n {
            fails.push(("C04|token|consumed-more-than-limit".into(), format!("token limit {}: tree holds {} tokens for {:?}", n, w.tokens, src)));
        }
        if p.token_high > n + 1 {
            fails.push(("C04|token|high-water".into(), format!("token limit {}: high-water mark {} for {:?}", n, p.token_high, src)));
        }
        if p.token_limit != n {
            fails.push(("C04|token|reported-limit".into(), format!("token_limit().limit = {} but {} was configured", p.token_limit, n)));
        }
        if token_limit_hit {
            let first = p.errors.iter().position(|e| e.is_limit && e.message.contains("token limit")).unwrap();
            if first + 1 != p.errors.len() {
                fails.push((
                    "C04|token|error-after-limit".into(),
                    format!("token limit {}: {} error(s) follow the token-limit error: {:?} for {:?}", n, p.errors.len() - first - 1, &p.errors[first + 1..], src),
                ));
            }
        }
    } else if !lexically_valid || true {
        // no token limit: high-water mark equals the number of items
        if p.token_high != unlimited_items.len() {
            fails.push(("C04|token|high-water-unlimited".into(), format!("no token limit: high-water mark {} but the lexer yields {} items for {:?}", p.token_high, unlimited_items.len(), src)));
        }
    }
    // recursion
    let r = case.r.unwrap_or(500);
    if p.recursion_limit != r {
        fails.push(("C04|recursion|reported-limit".into(), format!("recursion_limit().limit = {} but {} was configured", p.recursion_limit, r)));
    }
    if p.recursion_high > r + 1 {
        fails.push(("C04|recursion|high-water-above-limit".into(), format!("recursion limit {}: high-water mark {} for {:?}", r, p.recursion_high, src)));
    }
    if let (Some(d), false) = (d, case.n.map(|n| l > n).unwrap_or(false)) {
        // grammatical input, not cut short by the token limit
        if recursion_limit_hit != (d > r) {
            fails.push((
                format!("C04|recursion|limit-error-iff|{}", if recursion_limit_hit { "spurious" } else { "missing" }),
                format!("recursion limit {}: reference depth {}, limit error present: {} for {:?}", r, d, recursion_limit_hit, src),
            ));
        }
        let want_high = d.min(r + 1);
        if p.recursion_high != want_high {
            fails.push((
                format!("C04|recursion|high-water|{}", if p.recursion_high > want_high { "over" } else { "under" }),
                format!("recursion limit {}: reference depth {}, expected high-water mark {}, got {} for {:?}", r, d, want_high, p.recursion_high, src),
            ));
        }
    }
    if let (Some(d), true) = (d, case.n.map(|n| l > n).unwrap_or(false)) {
        // grammatical input cut short by the token limit: the parsed prefix is never nested deeper than
        // the whole document, so a recursion-limit error needs d > r and the mark cannot exceed min(d, r+1)
        if recursion_limit_hit && d <= r {
            fails.push((
                "C04|recursion|limit-error-iff|spurious-under-token-limit".into(),
                format!("recursion limit {} with token limit {:?}: the whole document has reference depth {} but a recursion-limit error is reported for {:?}", r, case.n, d, src),
            ));
        }
        if p.recursion_high > d.min(r + 1) {
            fails.push((
                "C04|recursion|high-water|over-under-token-limit".into(),
                format!("recursion limit {} with token limit {:?}: the whole document has reference depth {}, high-water mark {} for {:?}", r, case.n, d, p.recursion_high, src),
            ));
        }
    }
    let _ = limit_positions;

    // ---- standalone entry points: limit error => L > n
    if let Some(n) = case.n {
        for e in [Entry::SelectionSet, Entry::Type] {
            if let Ok(ps) = crate::runner::catch(|| parse::parse(e, src, case.n, case.r)) {
                let hit = ps.errors.iter().any(|x| x.is_limit && x.message.contains("token limit"));
                if hit && l <= n {
                    fails.push((format!("C04|token|standalone-spurious|{}", e.name()), format!("{} with token limit {} reports a limit error but the stream has only {} items: {:?}", e.name(), n, l, src)));
                }
            }
        }
    }

    // ---- compiler figures equal the parser's high-water marks
    {
        let mut cp = apollo_compiler::parser::Parser::new();
        if let Some(n) = case.n {
            cp = cp.token_limit(n);
        }
        if let Some(rr) = case.r {
            cp = cp.recursion_limit(rr);
        }
        let _ = cp.parse_ast(src, "doc.graphql");
        if cp.recursion_reached() != p.recursion_high {
            fails.push(("C04|compiler|recursion_reached".into(), format!("recursion_reached() = {} but the parser's high-water mark is {} for {:?}", cp.recursion_reached(), p.recursion_high, src)));
        }
        if cp.tokens_reached() != p.token_high {
            fails.push(("C04|compiler|tokens_reached".into(), format!("tokens_reached() = {} but the parser's high-water mark is {} for {:?}", cp.tokens_reached(), p.token_high, src)));
        }
        // the figures are documented as those of the LAST parse call: reuse one Parser value after a
        // deeper and longer document (through another parse method) and compare again
        let _ = cp.parse_ast(WARMUP, "warmup.graphql");
        let _ = cp.parse_ast(src, "doc.graphql");
        if cp.recursion_reached() != p.recursion_high || cp.tokens_reached() != p.token_high {
            fails.push((
                "C04|compiler|reached-after-reuse".into(),
                format!("after parsing another document first, recursion_reached()/tokens_reached() = {}/{} but the parser's marks for this document are {}/{} for {:?}", cp.recursion_reached(), cp.tokens_reached(), p.recursion_high, p.token_high, src),
            ));
        }
        // standalone entry points of the compiler parser report the standalone parser's marks
        for e in [Entry::Type, Entry::SelectionSet] {
            if let Ok(ps) = crate::runner::catch(|| parse::parse(e, src, case.n, case.r)) {
                let src2 = src.to_string();
                let got = crate::runner::catch(|| {
                    let mut cq = apollo_compiler::parser::Parser::new();
                    if let Some(n) = case.n {
                        cq = cq.token_limit(n);
                    }
                    if let Some(rr) = case.r {
                        cq = cq.recursion_limit(rr);
                    }
                    let _ = cq.parse_ast(WARMUP, "warmup.graphql");
                    match e {
                        Entry::Type => {
                            let _ = cq.parse_type(&src2, "t.graphql");
                        }
                        _ => {
                            let schema = fixed_schema();
                            let _ = cq.parse_field_set(schema, apollo_compiler::name!("Query"), &src2, "fs.graphql");
                        }
                    }
                    (cq.recursion_reached(), cq.tokens_reached())
                });
                if let Ok((rr, tr)) = got {
                    if rr != ps.recursion_high || tr != ps.token_high {
                        fails.push((
                            format!("C04|compiler|reached-standalone|{}", e.name()),
                            format!("compiler {} reports recursion/tokens reached {}/{} but the parser's marks are {}/{} for {:?}", e.name(), rr, tr, ps.recursion_high, ps.token_high, src),
                        ));
                    }
                }
            }
        }
    }

    let near_n = case.n.map(|n| (n as i64 - l as i64).abs() <= 2).unwrap_or(false);
    let near_r = match (d, case.r) {
        (Some(d), Some(r)) => d >= 2 && (r as i64 - d as i64).abs() <= 2,
        _ => false,
    };
    ctx.nontrivial = near_n || near_r;
    ctx.class(if ref_doc.is_some() { "grammatical" } else if lexically_valid { "syntax-error" } else { "lexical-error" });
    if near_n {
        ctx.class("n-near-L");
    }
    if near_r {
        ctx.class("r-near-d");
    }
    if token_limit_hit {
        ctx.class("token-limit-hit");
    }
    if recursion_limit_hit {
        ctx.class("recursion-limit-hit");
    }
    ctx.pick_failure(fails)
}

pub fn check(bytes: &[u8], ctx: &mut Ctx) -> Outcome {
    let mut c = Choices::new(bytes);
    let text = match c.weighted(&[50, 20, 20, 10]) {
        0 => {
            let d = syntax::document(&mut c, &syntax::Cfg::default());
            let toks = printer::doc_tokens(&d);
            if c.coin() {
                printer::join_random(&toks, &mut c)
            } else {
                printer::join_plain(&toks)
            }
        }
        1 => {
            // balanced nesting templates are grammatical for several kinds
            let (s, _) = text::nesting(&mut c, 30);
            s
        }
        2 => {
            let d = syntax::document(&mut c, &syntax::Cfg::default());
            let mut toks = printer::doc_tokens(&d);
            syntax::mutate_tokens(&mut c, &mut toks, 2);
            printer::join_random(&toks, &mut c)
        }
        _ => {
            let d = syntax::document(&mut c, &syntax::Cfg::default());
            let s = printer::join_plain(&printer::doc_tokens(&d));
            text::mutate_text(&mut c, &s, 2)
        }
    };
    let l_guess = match lexer::lex_all(&text) {
        Ok(t) => t.len(),
        Err(_) => crate::apollo::lex::items(&text, None, text.len() + 3).0.len(),
    };
    let d_guess = lexer::lex_all(&text).ok().and_then(|_| parser::parse_document(&text).ok()).map(|d| doc_depth(&d)).unwrap_or(3);
    let n = if c.bool(170) { Some(sweep(&mut c, l_guess, l_guess + 5)) } else { None };
    let r = if c.bool(190) { Some(sweep(&mut c, d_guess, 40)) } else { None };
    let case = Case { text, n, r };
    ctx.set_sample(format!("n={:?} r={:?} text={:?}", case.n, case.r, crate::runner::truncate(&case.text, 300)));
    ctx.key = Some(crate::choices::fnv(format!("{:?}|{:?}|{}", case.n, case.r, case.text).as_bytes()));
    check_case(&case, ctx)
}

/// Text replay: first line `#!n=<N|none> r=<R|none>`, the rest is the document.
pub fn check_text(text: &str, ctx: &mut Ctx) -> Outcome {
    let (head, body) = text.split_once('\n').unwrap_or(("", text));
    let mut n = None;
    let mut r = None;
    if let Some(h) = head.strip_prefix("#!") {
        for part in h.split_whitespace() {
            if let Some(v) = part.strip_prefix("n=") {
                n = v.parse().ok();
            }
            if let Some(v) = part.strip_prefix("r=") {
                r = v.parse().ok();
            }
        }
    }
    let body = if head.starts_with("#!") { body } else { text };
    check_case(&Case { text: body.to_string(), n, r }, ctx)
}
