#!/bin/sh
# MANIFEST.setup_cmd: offline build of the harness from files on disk only.
set -e
cd /verif/harness
export CARGO_NET_OFFLINE=true
cargo build --release 2>&1 | tail -3
mkdir -p /verif/evidence /verif/.work
