#!/usr/bin/env python3
"""Resolve merge conflicts in the harness's mod.rs files and KNOWN_FINDINGS.txt by taking the
union of both sides (module lists and finding lines are order-insensitive), and regenerate
props::all() from the `pub mod cNN;` lines."""
import re, sys
def union(path):
    s = open(path).read()
    def repl(m):
        a = m.group(1).splitlines(); b = m.group(2).splitlines()
        out = list(a)
        for l in b:
            if l not in out: out.append(l)
        return "\n".join(out) + "\n"
    s2 = re.sub(r"<<<<<<< [^\n]*\n(.*?)=======\n(.*?)>>>>>>> [^\n]*\n", repl, s, flags=re.S)
    open(path, "w").write(s2)
for p in ["harness/src/refmodel/mod.rs", "harness/src/gen/mod.rs", "harness/src/apollo/mod.rs", "KNOWN_FINDINGS.txt", "harness/src/props/mod.rs"]:
    try: union(p)
    except FileNotFoundError: pass
# props/mod.rs: rebuild the module list and all()
p = "harness/src/props/mod.rs"; s = open(p).read()
mods = sorted(set(re.findall(r"^pub mod (\w+);", s, flags=re.M)))
props = [m for m in mods if re.fullmatch(r"c\d+", m)]
s = re.sub(r"^pub mod \w+;\n", "", s, flags=re.M)
s = re.sub(r"pub fn all\(\) -> Vec<Prop> \{.*?\n\}\n", "", s, flags=re.S)
# drop duplicate all() remnants
head, rest = s.split("use crate::runner::Prop;\n", 1)
modlines = "".join(f"pub mod {m};\n" for m in mods)
allfn = "pub fn all() -> Vec<Prop> {\n    vec![\n" + "".join(f"        {m}::prop(),\n" for m in props) + "    ]\n}\n"
rest = re.sub(r"\n{3,}", "\n\n", rest)
open(p, "w").write(head + "use crate::runner::Prop;\n\n" + modlines + "\n" + allfn + rest.lstrip("\n").join(["\n", ""]) if False else head + "use crate::runner::Prop;\n\n" + modlines + "\n" + allfn + "\n" + rest.lstrip("\n"))
print("mods:", mods)
