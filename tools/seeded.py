#!/usr/bin/env python3
"""Seeded-change workflow (DESIGN.md section 8).

  seeded.py verify <candidate-dir>          confirm a candidate change in a scratch worktree of /repo:
                                            demo passes without the patch, fails with it, and the pinned
                                            suite still passes with it. Writes <candidate-dir>/verify.json.
  seeded.py detect <dir> [--tier T] [--props C01,C02] [--in-place]
                                            run the registered checks of the property (or the given ones)
                                            against the change. Default: scratch worktree + scratch copy of
                                            the harness pointed at it (safe while other work uses /repo).
                                            --in-place: git -C /repo apply, ./check, git -C /repo checkout -- .
                                            Writes <dir>/detect.json.
  seeded.py cleanup                         remove the scratch worktree, harness copy and build output.

Scratch state lives under $SEED_DIR (default /tmp/seed; outside /repo and /verif) and is removed by
`cleanup`. $SEED_SRC (default /verif) is the tree whose harness is copied, e.g. a builder's worktree.
"""
import json, os, re, shutil, subprocess, sys, time

SEED = os.environ.get("SEED_DIR", "/tmp/seed")
# tree the scratch copy of the harness is taken from (a builder's worktree, default /verif)
SRC = os.environ.get("SEED_SRC", "/verif").rstrip("/")
REPO = f"{SEED}/repo"
VCOPY = f"{SEED}/verif"
ENV = dict(os.environ, CARGO_NET_OFFLINE="true", VERIF_JOBS=os.environ.get("VERIF_JOBS", "8"))
SUITE = ("cargo nextest run --workspace --no-fail-fast --tool-config-file pb:/w/lib/nextest.toml "
         "--profile pb --test-threads 8 --offline")


def sh(cmd, cwd=None, timeout=3600, env=None):
    p = subprocess.run(cmd, shell=True, cwd=cwd, env=env or ENV, stdout=subprocess.PIPE,
                       stderr=subprocess.STDOUT, text=True, timeout=timeout)
    return p.returncode, p.stdout


def ensure_repo():
    os.makedirs(SEED, exist_ok=True)
    if not os.path.isdir(REPO):
        rc, out = sh(f"git -C /repo worktree add --detach {REPO} HEAD")
        assert rc == 0, out
    head = sh("git -C /repo rev-parse HEAD")[1].strip()
    sh("git checkout -q -- . && git clean -fdq -e target", cwd=REPO)
    sh(f"git checkout -q --detach {head}", cwd=REPO)


def clean_repo():
    sh("git checkout -q -- . && git clean -fdq -e target", cwd=REPO)


def verify(d):
    meta = json.load(open(f"{d}/meta.json"))
    ensure_repo()
    res = {"candidate": d, "repo_head": sh("git -C /repo rev-parse --short HEAD")[1].strip()}
    demo_path, demo_cmd = meta["demo_path"], meta["demo_cmd"]
    os.makedirs(os.path.dirname(f"{REPO}/{demo_path}"), exist_ok=True)
    shutil.copy(f"{d}/demo.rs", f"{REPO}/{demo_path}")
    rc, out = sh(demo_cmd, cwd=REPO)
    res["demo_without_patch"] = {"rc": rc, "tail": out[-1500:]}
    rc, out = sh(f"git apply {os.path.abspath(d)}/patch.diff", cwd=REPO)
    res["apply"] = {"rc": rc, "out": out[-500:]}
    if rc != 0:
        res["ok"] = False
        clean_repo()
        json.dump(res, open(f"{d}/verify.json", "w"), indent=1)
        return res
    rc, out = sh(demo_cmd, cwd=REPO)
    res["demo_with_patch"] = {"rc": rc, "tail": out[-2500:]}
    os.remove(f"{REPO}/{demo_path}")
    rc, out = sh(SUITE, cwd=REPO, timeout=5400)
    m = re.findall(r"Summary.*", out)
    res["suite_with_patch"] = {"rc": rc, "summary": m[-1] if m else out[-800:]}
    passed = re.search(r"(\d+) tests run: (\d+) passed", m[-1]) if m else None
    res["ok"] = (res["demo_without_patch"]["rc"] == 0 and res["demo_with_patch"]["rc"] != 0 and rc == 0
                 and passed is not None and passed.group(1) == passed.group(2) == "369")
    clean_repo()
    json.dump(res, open(f"{d}/verify.json", "w"), indent=1)
    return res


def ensure_vcopy():
    os.makedirs(VCOPY, exist_ok=True)
    sh(f"rsync -a --delete --exclude .git --exclude harness/target --exclude .work --exclude seeded {SRC}/ {VCOPY}/")
    p = f"{VCOPY}/harness/Cargo.toml"
    s = open(p).read().replace('"/repo/crates/', f'"{REPO}/crates/')
    open(p, "w").write(s)


def checks_for(meta, props):
    if props == "ALL":
        return [c["property_id"] for c in json.load(open("/verif/MANIFEST.json"))["checks"]]
    if props:
        return props.split(",")
    return [meta["property"]]


def detect(d, tier, props, in_place):
    meta = json.load(open(f"{d}/meta.json")) if os.path.exists(f"{d}/meta.json") else {}
    ids = checks_for(meta, props)
    out_all = {"dir": d, "tier": tier, "mode": "in-place" if in_place else "scratch", "results": {}}
    patch = os.path.abspath(f"{d}/patch.diff")
    if in_place:
        rc, out = sh(f"git -C /repo apply {patch}")
        assert rc == 0, out
        try:
            for pid in ids:
                t = time.time()
                rc, out = sh(f"./check {pid} --tier {tier}", cwd="/verif", timeout=7200)
                out_all["results"][pid] = summarize(rc, out, time.time() - t)
        finally:
            sh("git -C /repo checkout -- .")
    else:
        ensure_repo()
        ensure_vcopy()
        rc, out = sh(f"git apply {patch}", cwd=REPO)
        assert rc == 0, out
        try:
            env = dict(ENV, CARGO_TARGET_DIR=f"{SEED}/htarget", VERIF_ROOT=VCOPY)
            rc, out = sh("cargo build --release -q -j 8", cwd=f"{VCOPY}/harness", env=env, timeout=3600)
            if rc != 0:
                out_all["build_failed"] = out[-2000:]
            else:
                for pid in ids:
                    t = time.time()
                    rc, out = sh(f"{SEED}/htarget/release/verif run --prop {pid} --tier {tier} --seed {os.environ.get('VERIF_SEED', '20260921')}",
                                 cwd=f"{VCOPY}/harness", env=env, timeout=7200)
                    out_all["results"][pid] = summarize(rc, out, time.time() - t)
        finally:
            clean_repo()
    prev = {}
    if os.path.exists(f"{d}/detect.json"):
        prev = json.load(open(f"{d}/detect.json"))
    prev[f"{tier}"] = out_all
    json.dump(prev, open(f"{d}/detect.json", "w"), indent=1)
    return out_all


def summarize(rc, out, wall):
    viol = [l for l in out.splitlines() if l.startswith("VIOLATION")]
    tail = out.splitlines()[-6:]
    return {"rc": rc, "caught": rc == 1 and bool(viol), "violations": viol[:5], "wall_s": round(wall, 1), "tail": tail}


def main():
    a = sys.argv[1:]
    if not a:
        print(__doc__)
        return 2
    if a[0] == "cleanup":
        sh(f"git -C /repo worktree remove --force {REPO}")
        shutil.rmtree(SEED, ignore_errors=True)
        sh("git -C /repo worktree prune")
        return 0
    if a[0] == "verify":
        r = verify(a[1].rstrip("/"))
        print(json.dumps(r, indent=1)[:3000])
        return 0 if r.get("ok") else 1
    if a[0] == "detect":
        d = a[1].rstrip("/")
        tier, props, in_place = "quick", None, False
        i = 2
        while i < len(a):
            if a[i] == "--tier":
                tier = a[i + 1]; i += 2
            elif a[i] == "--props":
                props = a[i + 1]; i += 2
            elif a[i] == "--in-place":
                in_place = True; i += 1
            else:
                i += 1
        r = detect(d, tier, props, in_place)
        for pid, x in r["results"].items():
            print(pid, "CAUGHT" if x["caught"] else f"missed(rc={x['rc']})", x["wall_s"], "s", x["violations"][:1])
        return 0
    return 2


if __name__ == "__main__":
    sys.exit(main())
