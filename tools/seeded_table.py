#!/usr/bin/env python3
"""Markdown table for DESIGN.md section 8.4 from /verif/seeded/*/{meta,detect}.json."""
import json, os
rows = []
for n in sorted(os.listdir("/verif/seeded")):
    d = f"/verif/seeded/{n}"
    if not os.path.exists(f"{d}/meta.json"):
        continue
    m = json.load(open(f"{d}/meta.json"))
    det = json.load(open(f"{d}/detect.json")) if os.path.exists(f"{d}/detect.json") else {}
    cells = []
    for tier in ("quick", "thorough"):
        if tier in det:
            res = det[tier]["results"]
            if n.startswith("neutral"):
                alarms = [pid for pid, r in res.items() if r["rc"] == 1]
                other = [f"{pid} rc={r['rc']}" for pid, r in res.items() if r["rc"] not in (0, 1)]
                cells.append(f"{tier}: {len(res)} checks run, " + ("all silent (as they must be)" if not alarms and not other else "FALSE ALARM: " + ", ".join(alarms + other)))
                continue
            for pid, r in res.items():
                cells.append(f"{pid} {tier}: " + ("caught (%ss)" % r["wall_s"] if r["caught"] else "MISSED" if r["rc"] == 0 else f"rc={r['rc']}"))
    summ = (m.get("summary") or "").replace("|", "\\|").replace("\n", " ")
    need = (m.get("needs_to_manifest") or "").replace("|", "\\|").replace("\n", " ")
    rows.append(f"| {n} | {summ[:260]} | {need[:200]} | {'; '.join(cells)} |")
print("| change | what it does | needs | result |")
print("|---|---|---|---|")
print("\n".join(rows))
