#!/usr/bin/env python3
"""Prints the markdown table of findings (DESIGN.md section 8.3) from KNOWN_FINDINGS.txt."""
import re, sys
rows = []
for l in open('/verif/KNOWN_FINDINGS.txt'):
    l = l.strip()
    m = re.match(r'fixed: property=(\S+) (\S+) (.*)', l)
    if m:
        rows.append((m.group(1), 'fixed in /repo ' + m.group(2), m.group(3)))
        continue
    m = re.match(r'known: property=(\S+) sig=(.*?) :: (.*?) :: repro=(\S+)', l)
    if m:
        rows.append((m.group(1), 'known (`' + m.group(2).replace('|', '\\|') + '`)', m.group(3) + ' (' + m.group(4) + ')'))
rows.sort(key=lambda r: r[0])
print('| property | status | what failed |')
print('|---|---|---|')
for p, s, w in rows:
    print(f'| {p} | {s} | {w.replace("|", chr(92) + "|")} |')
