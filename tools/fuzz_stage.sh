#!/bin/sh
# Coverage-guided fuzz stage of the thorough tier (DESIGN.md section 2, "libFuzzer").
#   tools/fuzz_stage.sh <ID> <stage|@text> <seconds> [jobs]
# Builds /verif/fuzz (cargo-fuzz, nightly, ASan, debug assertions) against /repo's working tree, seeds a
# fresh corpus under /verif/.work/fuzz/<ID>/<stage>/ (generated cases + saved regressions; for @text
# the repository's own test_data files), runs libFuzzer in fork mode for <seconds>, then hands every
# saved crash input to `verif confirm`, which re-runs it in the standard worker build: only a
# confirmed, unlisted failure prints VIOLATION and makes this script exit 1. A failure to build the
# fuzz target (no nightly toolchain) is reported and exits 0 with "fuzz_stage": "unavailable" in the
# JSON summary: the PBT stages have already decided the property.
ID="$1"; STAGE="$2"; SECS="${3:-120}"; JOBS="${4:-14}"
SEED="${VERIF_SEED:-20260921}"
BIN=/verif/harness/target/release/verif
WORK=/verif/.work/fuzz/$ID/$(echo "$STAGE" | tr -c 'A-Za-z0-9_-' '_')
SUMMARY=/verif/.work/fuzz/$ID/summary-$(echo "$STAGE" | tr -c 'A-Za-z0-9_-' '_').json
export CARGO_NET_OFFLINE=true
mkdir -p "$WORK"; rm -rf "$WORK/corpus" "$WORK/artifacts" "$WORK"/fuzz-*.log; mkdir -p "$WORK/corpus" "$WORK/artifacts"
if ! RUSTFLAGS="--cfg apollographql_apollo_rs_verif" cargo +nightly fuzz build --fuzz-dir /verif/fuzz prop >"$WORK/build.log" 2>&1; then
  echo "fuzz stage unavailable for $ID (cargo +nightly fuzz build failed; see $WORK/build.log)"
  printf '{"stage":"%s","status":"unavailable"}\n' "$STAGE" > "$SUMMARY"
  exit 0
fi
FBIN=/verif/fuzz/target/x86_64-unknown-linux-gnu/release/prop
"$BIN" corpus --prop "$ID" --stage "$STAGE" --seed "$SEED" --n 300 --out "$WORK/corpus" >/dev/null
if [ "$STAGE" = "@text" ]; then
  # small valid inputs from the repository's tests (read from /repo at run time)
  n=0
  for f in /repo/crates/apollo-parser/test_data/lexer/ok/*.graphql /repo/crates/apollo-parser/test_data/parser/ok/*.graphql \
           /repo/crates/apollo-parser/test_data/parser/err/*.graphql /repo/crates/apollo-compiler/test_data/ok/*.graphql; do
    [ -f "$f" ] && [ "$(wc -c < "$f")" -le 3000 ] && cp "$f" "$WORK/corpus/repo-$n" && n=$((n+1))
  done
  MAXLEN=4096
else
  MAXLEN=$("$BIN" stages --prop "$ID" | awk -v s="$STAGE" '$1==s {print $2}')
  MAXLEN=${MAXLEN:-1024}
fi
export VERIF_FUZZ_PROP="$ID" VERIF_FUZZ_STAGE="$STAGE" VERIF_ROOT=/verif
export ASAN_OPTIONS="detect_leaks=0:abort_on_error=1:symbolize=0"
# N independent libFuzzer processes on one shared corpus directory; a process that finds a crash saves the
# input and exits, and is restarted (different seed) while time remains, so one shallow defect does not
# end the campaign. (libFuzzer's own -fork mode restarts short-lived jobs and spends most of its time
# re-reading the corpus.)
END=$(( $(date +%s) + SECS ))
i=0
while [ $i -lt "$JOBS" ]; do
  (
    k=0
    while :; do
      left=$(( END - $(date +%s) ))
      [ $left -le 2 ] && break
      ( cd "$WORK" && "$FBIN" corpus -artifact_prefix=artifacts/ -max_len=$MAXLEN -len_control=0 \
          -seed=$(( (SEED % 2000000000) + 1 + i * 1000 + k )) -max_total_time=$left -timeout=90 -rss_limit_mb=4000 \
          -print_final_stats=1 >> "fuzz-$i.log" 2>&1 )
      k=$((k+1))
      [ $k -gt 50 ] && break
    done
  ) &
  i=$((i+1))
done
wait
cat "$WORK"/fuzz-*.log > "$WORK/fuzz.log" 2>/dev/null
EXECS=$(grep -h 'stat::number_of_executed_units' "$WORK"/fuzz-*.log | awk '{s+=$2} END {print s+0}')
COV=$(grep -ho 'cov: [0-9]*' "$WORK"/fuzz-*.log | tr -dc '0-9\n' | sort -n | tail -1)
FT=$(grep -ho 'ft: [0-9]*' "$WORK"/fuzz-*.log | tr -dc '0-9\n' | sort -n | tail -1)
CORP=$(ls "$WORK/corpus" | wc -l)
RC=0; NART=0; CONFIRMED=0
for a in "$WORK"/artifacts/crash-* "$WORK"/artifacts/timeout-* "$WORK"/artifacts/oom-*; do
  [ -f "$a" ] || continue
  NART=$((NART+1))
  case "$a" in
    */crash-*)
      "$BIN" confirm --prop "$ID" --stage "$STAGE" --raw "$a" --tier thorough; c=$?
      if [ $c -eq 1 ]; then RC=1; CONFIRMED=$((CONFIRMED+1)); fi;;
    *) echo "note: property=$ID fuzz input $(basename "$a") exceeded the libFuzzer per-input time/memory limit under ASan; not judged (not a violation)";;
  esac
done
printf '{"stage":"%s","status":"ran","engine":"libFuzzer (cargo-fuzz, ASan, %s processes on one corpus)","seconds":%s,"executions":%s,"coverage_edges":%s,"features":%s,"corpus_files":%s,"crash_inputs":%s,"confirmed_violations":%s}\n' \
  "$STAGE" "$JOBS" "$SECS" "${EXECS:-0}" "${COV:-0}" "${FT:-0}" "$CORP" "$NART" "$CONFIRMED" > "$SUMMARY"
cat "$SUMMARY"
exit $RC
