#!/usr/bin/env python3
"""Copies confirmed seeded changes from the sub-agents' output directory into /verif/seeded/<id>-<variant>/
(patch.diff, demo.rs, meta.json enriched with what was run, verify.json, detect.json). Only candidates
whose verify.json says ok (demo passes without / fails with the patch, 369 pinned tests pass with it)
are kept. usage: seeded_import.py /tmp/brk-out"""
import json, os, shutil, sys
src = sys.argv[1]
dst = "/verif/seeded"
os.makedirs(dst, exist_ok=True)
for n in sorted(os.listdir(src)):
    d = f"{src}/{n}"
    if not os.path.exists(f"{d}/verify.json") and not n.startswith("N"):
        continue
    if n.startswith("N"):
        if not os.path.exists(f"{d}/patch.diff"):
            continue
        os.makedirs(f"{dst}/neutral-{n}", exist_ok=True)
        for f in ("patch.diff", "meta.json", "detect.json"):
            if os.path.exists(f"{d}/{f}"):
                shutil.copy(f"{d}/{f}", f"{dst}/neutral-{n}/{f}")
        continue
    v = json.load(open(f"{d}/verify.json"))
    if not v.get("ok"):
        print("skip (not confirmed):", n)
        continue
    os.makedirs(f"{dst}/{n}", exist_ok=True)
    for f in ("patch.diff", "demo.rs", "verify.json", "detect.json"):
        if os.path.exists(f"{d}/{f}"):
            shutil.copy(f"{d}/{f}", f"{dst}/{n}/{f}")
    meta = json.load(open(f"{d}/meta.json"))
    meta["breaks_property"] = meta.get("property", n.split("-")[0])
    meta["what_i_ran"] = {
        "confirmation": "tools/seeded.py verify: scratch worktree of /repo at " + v.get("repo_head", "?") +
                        "; demo without patch rc=%s, with patch rc=%s; pinned suite with patch: %s" % (
                            v["demo_without_patch"]["rc"], v["demo_with_patch"]["rc"], v["suite_with_patch"]["summary"]),
        "detection": "tools/seeded.py detect (see detect.json): the property's registered check against the patched tree",
    }
    json.dump(meta, open(f"{dst}/{n}/meta.json", "w"), indent=1)
    print("kept:", n)
