#!/usr/bin/env python3
"""Regenerates /verif/MANIFEST.json from tools/manifest_table.json (one entry per claimed property)
and properties.jsonl (everything else goes to not_applicable with the reason given in the table,
or 'check not built yet')."""
import json, os
root = os.path.dirname(os.path.dirname(os.path.abspath(__file__)))
table = json.load(open(os.path.join(root, "tools", "manifest_table.json")))
props = [json.loads(l) for l in open(os.path.join(root, "properties.jsonl"))]
# per-property entries may also live in tools/table/<ID>.json ({"technique","level_text","level_note"[,"engine"]})
import glob
for f in sorted(glob.glob(os.path.join(root, "tools", "table", "*.json"))):
    table["checks"][os.path.splitext(os.path.basename(f))[0]] = json.load(open(f))
checks, na = [], []
for p in props:
    pid = p["id"]
    t = table["checks"].get(pid)
    if t is None:
        na.append({"property_id": pid, "reason": table.get("not_applicable", {}).get(pid, "check not built yet (work in progress); nothing is claimed for this property")})
        continue
    checks.append({
        "property_id": pid,
        "quick_cmd": f"./check {pid} --tier quick",
        "thorough_cmd": f"./check {pid} --tier thorough",
        "evidence_file": f"/verif/evidence/{pid}.json",
        "replay_cmd_template": f"./check {pid} --replay {{path}}",
        "engine": t.get("engine", "harness"),
        "level_claimed": {"category": "exploration", "text": t["level_text"], "design_ref": f"DESIGN.md section 4, {pid}"},
        "level_note": t["level_note"],
        "technique": t["technique"],
    })
m = {
    "version": 1,
    "setup_cmd": "./setup.sh",
    "hooks": table["hooks"],
    "engines": table["engines"],
    "checks": checks,
    "notes": table["notes"],
    "not_applicable": na,
}
json.dump(m, open(os.path.join(root, "MANIFEST.json"), "w"), indent=1)
print(f"{len(checks)} checks, {len(na)} not claimed")
